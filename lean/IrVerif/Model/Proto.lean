/-
ONNX protobuf messages (onnx.proto, IR version 13 / onnx 1.22) as Lean data, restricted to the
feature set `onnx_ir.serde` supports.  Used by C02 (proto -> IR -> proto), C03 and C17.

Conventions (they are part of the trusted rendering done by `harness/c02.py`):
* optional scalar fields (`name`, `doc_string`, `domain`, `denotation`, ...) are plain values; the
  protobuf default value stands for "unset" (serde.py reads them with `_get_field`/attribute access
  and writes them with `if x:`; it never distinguishes unset from default).  Presence is modelled
  explicitly (`Option`, dedicated constructor) exactly where serde.py looks at it:
  `tensor_type.elem_type`, `tensor_type.shape`, the `value` oneof of a dimension, the `value` oneof
  of a TypeProto, `raw_data`, `pipeline_stage`, the `dim` oneof of SimpleShardedDimProto.
* an absent sub-message equals an empty one (`ValueInfoProto.type`, `sequence_type.elem_type`):
  serde.py reads both the same way (`TypeP.unset ""`).
* `bytes` fields are opaque tokens (hex text); serde.py copies them, it never looks inside,
  except `AttributeProto.s / strings` which it decodes as UTF-8 (`BStr`).
* float fields are IEEE bit patterns (`Nat`).
* not representable here (the renderer refuses such protos; outside the supported set):
  `sparse_initializer`, `training_info`, `TensorProto.segment`, `opaque_type`, attribute value
  fields that do not belong to the declared attribute `type`.
Only core Lean is imported (this file is linked into the `irdriver` executable).
-/
namespace IrVerif.Proto

/-- `StringStringEntryProto` -/
structure Entry where
  key : String
  value : String
deriving DecidableEq, Repr, Inhabited

/-- `OperatorSetIdProto` -/
structure OpsetP where
  domain : String
  version : Int
deriving DecidableEq, Repr, Inhabited

/-- the `value` oneof of `TensorShapeProto.Dimension` (also of `SimpleShardedDimProto`) -/
inductive DimVal where
  | unset
  | value (v : Int)
  | param (s : String)
deriving DecidableEq, Repr, Inhabited

/-- `TensorShapeProto.Dimension` -/
structure DimP where
  val : DimVal
  den : String
deriving DecidableEq, Repr, Inhabited

/-- `TensorShapeProto` (its only field is `dim`) -/
abbrev ShapeP := List DimP

/-- `TypeProto`: the `value` oneof plus `denotation`.  `elem`/`shape` of the tensor kinds are
`none` when the field is not present (`HasField`). -/
inductive TypeP where
  | unset (den : String)
  | tensor (elem : Option Int) (shape : Option ShapeP) (den : String)
  | sparse (elem : Option Int) (shape : Option ShapeP) (den : String)
  | sequence (elem : TypeP) (den : String)
  | optional (elem : TypeP) (den : String)
  | map (den : String)
deriving DecidableEq, Repr, Inhabited

/-- `ValueInfoProto` -/
structure ValueInfoP where
  name : String
  type : TypeP
  doc : String
  metadata : List Entry
deriving DecidableEq, Repr, Inhabited

/-- opaque byte string (hex text) -/
abbrev Bytes := String

/-- `TensorProto` (all storage fields; `segment` unsupported) -/
structure TensorP where
  name : String
  doc : String
  dataType : Int
  dims : List Int
  dataLocation : Int
  rawData : Option Bytes
  floatData : List Nat
  int32Data : List Int
  stringData : List Bytes
  int64Data : List Int
  doubleData : List Nat
  uint64Data : List Nat
  externalData : List Entry
  metadata : List Entry
deriving DecidableEq, Repr, Inhabited

/-- a `bytes` value that serde.py decodes: valid UTF-8 (decoded text) or not (raw, hex).  Which of
the two is decided by CPython's codec in the renderer (trusted). -/
inductive BStr where
  | utf8 (s : String)
  | raw (hex : String)
deriving DecidableEq, Repr, Inhabited

/-- `TensorAnnotation` -/
structure AnnotP where
  tensorName : String
  params : List Entry
deriving DecidableEq, Repr, Inhabited

/-- `SimpleShardedDimProto` -/
structure SimpleShardP where
  dim : DimVal
  numShards : Int
deriving DecidableEq, Repr, Inhabited

/-- `ShardedDimProto` -/
structure ShardedDimP where
  axis : Int
  simple : List SimpleShardP
deriving DecidableEq, Repr, Inhabited

/-- `IntIntListEntryProto` -/
structure IntListEntryP where
  key : Int
  value : List Int
deriving DecidableEq, Repr, Inhabited

/-- `ShardingSpecProto` -/
structure ShardingSpecP where
  tensorName : String
  device : List Int
  groupMap : List IntListEntryP
  dims : List ShardedDimP
deriving DecidableEq, Repr, Inhabited

/-- `NodeDeviceConfigurationProto` -/
structure NodeDevCfgP where
  configurationId : String
  specs : List ShardingSpecP
  pipelineStage : Option Int
deriving DecidableEq, Repr, Inhabited

/-- `DeviceConfigurationProto` -/
structure DevCfgP where
  name : String
  numDevices : Int
  device : List String
deriving DecidableEq, Repr, Inhabited

mutual
/-- `AttributeProto`, one constructor per shape serde.py distinguishes.  `ref` = `ref_attr_name`
non-empty (any `type`).  `undefined` = type 0 without a reference, `sparse` = SPARSE_TENSOR(S),
`unknown` = a type number outside the enum. -/
inductive AttrP where
  | ref (name doc refName : String) (type : Int)
  | int (name doc : String) (i : Int)
  | float (name doc : String) (bits : Nat)
  | string (name doc : String) (s : BStr)
  | ints (name doc : String) (xs : List Int)
  | floats (name doc : String) (xs : List Nat)
  | strings (name doc : String) (xs : List BStr)
  | tensor (name doc : String) (t : TensorP)
  | tensors (name doc : String) (ts : List TensorP)
  | graph (name doc : String) (g : GraphP)
  | graphs (name doc : String) (gs : List GraphP)
  | typeProto (name doc : String) (tp : TypeP)
  | typeProtos (name doc : String) (tps : List TypeP)
  | undefined (name doc : String)
  | sparse (name doc : String) (plural : Bool)
  | unknown (name doc : String) (type : Int)

/-- `NodeProto` -/
inductive NodeP where
  | mk (inputs outputs : List String) (name opType domain overload doc : String)
      (attrs : List AttrP) (metadata : List Entry) (devcfgs : List NodeDevCfgP)

/-- `GraphProto` -/
inductive GraphP where
  | mk (name doc : String) (nodes : List NodeP) (initializers : List TensorP)
      (inputs outputs valueInfo : List ValueInfoP) (quant : List AnnotP) (metadata : List Entry)
end

instance : Inhabited GraphP := ⟨.mk "" "" [] [] [] [] [] [] []⟩
instance : Inhabited NodeP := ⟨.mk [] [] "" "" "" "" "" [] [] []⟩
instance : Inhabited AttrP := ⟨.undefined "" ""⟩

namespace AttrP
def name : AttrP → String
  | ref n .. | int n .. | float n .. | string n .. | ints n .. | floats n .. | strings n ..
  | tensor n .. | tensors n .. | graph n .. | graphs n .. | typeProto n .. | typeProtos n ..
  | undefined n .. | sparse n .. | unknown n .. => n
end AttrP

namespace NodeP
def inputs : NodeP → List String | mk i .. => i
def outputs : NodeP → List String | mk _ o .. => o
def name : NodeP → String | mk _ _ n .. => n
def opType : NodeP → String | mk _ _ _ t .. => t
def domain : NodeP → String | mk _ _ _ _ d .. => d
def overload : NodeP → String | mk _ _ _ _ _ o .. => o
def doc : NodeP → String | mk _ _ _ _ _ _ d .. => d
def attrs : NodeP → List AttrP | mk _ _ _ _ _ _ _ a .. => a
def metadata : NodeP → List Entry | mk _ _ _ _ _ _ _ _ m _ => m
def devcfgs : NodeP → List NodeDevCfgP | mk _ _ _ _ _ _ _ _ _ d => d
end NodeP

namespace GraphP
def name : GraphP → String | mk n .. => n
def doc : GraphP → String | mk _ d .. => d
def nodes : GraphP → List NodeP | mk _ _ ns .. => ns
def initializers : GraphP → List TensorP | mk _ _ _ i .. => i
def inputs : GraphP → List ValueInfoP | mk _ _ _ _ i .. => i
def outputs : GraphP → List ValueInfoP | mk _ _ _ _ _ o .. => o
def valueInfo : GraphP → List ValueInfoP | mk _ _ _ _ _ _ v .. => v
def quant : GraphP → List AnnotP | mk _ _ _ _ _ _ _ q _ => q
def metadata : GraphP → List Entry | mk _ _ _ _ _ _ _ _ m => m
end GraphP

/-- `FunctionProto` -/
structure FunctionP where
  name : String
  domain : String
  overload : String
  doc : String
  inputs : List String
  outputs : List String
  attrNames : List String
  attrProtos : List AttrP
  nodes : List NodeP
  opsetImport : List OpsetP
  valueInfo : List ValueInfoP
  metadata : List Entry
deriving Inhabited

/-- `ModelProto` -/
structure ModelP where
  irVersion : Int
  producerName : String
  producerVersion : String
  domain : String
  modelVersion : Int
  doc : String
  opsetImport : List OpsetP
  metadata : List Entry
  graph : GraphP
  functions : List FunctionP
  configuration : List DevCfgP
deriving Inhabited

end IrVerif.Proto

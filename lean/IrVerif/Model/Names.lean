/-
Model of the naming machinery of onnx/ir-py (property C15).  Core Lean only.

Part A  `src/onnx_ir/_name_authority.py` (NameAuthority: two counters + two seen sets) as it is
        driven by `Graph.__init__/append/extend/insert_before/insert_after`
        (`src/onnx_ir/_core.py`, `_set_node_graph_to_self_and_assign_names`).
Part B  `NameFixPass` of `src/onnx_ir/passes/common/naming.py` driven through
        `traversal.RecursiveGraphIterator`, with the initializer re-keying of `Value.name=`.
Part C  `convenience.rename_values` (`src/onnx_ir/_convenience/__init__.py`).

Names are real `String`s; generated names are produced with `toString : Nat → String`
(decimal, identical to Python's `f"{int}"`), so explicit names shaped like generated ones
("val_3", "node_Add_0") are ordinary inputs of the model.
-/
namespace IrVerif.Names

/-- `f"val_{counter}"` (`_name_authority.py:42`). -/
def valName (k : Nat) : String := "val_" ++ toString k

/-- `f"node_{op_type}_{counter}"` (`_name_authority.py:50`). -/
def nodeName (op : String) (k : Nat) : String := "node_" ++ op ++ "_" ++ toString k

/-- `NameAuthority.__init__` state (`_name_authority.py:33-37`).  The two Python `set`s are lists;
only membership is ever observed. -/
structure Auth where
  vc : Nat := 0
  nc : Nat := 0
  vnames : List String := []
  nnames : List String := []
deriving Repr, DecidableEq

/-- The loop of `_unique_value_name` / `_unique_node_name` (`_name_authority.py:39-53`)

      while True:
          name = mk(counter); counter += 1
          if name not in seen: return name

with an explicit iteration budget; `none` = budget exhausted.  Returns the name and the
counter after the loop. -/
def uniqueLoop (mk : Nat → String) (seen : List String) : Nat → Nat → Option (String × Nat)
  | 0, _ => none
  | fuel + 1, c =>
    if seen.contains (mk c) then uniqueLoop mk seen fuel (c + 1) else some (mk c, c + 1)

/-- The unbounded loop: `|seen| + 1` iterations always suffice (theorem `C15_loop_terminates`),
so the default of `getD` is dead code. -/
def uniqueFrom (mk : Nat → String) (seen : List String) (c : Nat) : String × Nat :=
  (uniqueLoop mk seen (seen.length + 1) c).getD (mk c, c + 1)

/-- The primitive calls a graph makes on its authority. -/
inductive Op where
  /-- `register_or_name_value(value)` with `value.name` = the argument (`None` = unnamed) -/
  | value (name : Option String)
  /-- `register_or_name_node(node)` with `node.name`, `node.op_type` -/
  | node (name : Option String) (opType : String)
deriving Repr, DecidableEq

/-- What one call did: which namespace, whether the name was generated, the name the object has
afterwards. -/
structure Ev where
  isNode : Bool
  generated : Bool
  name : String
deriving Repr, DecidableEq

/-- `register_or_name_value` (`_name_authority.py:55-63`) and `register_or_name_node` (65-72):
name the object if its name is `None`, then add the (possibly explicit) name to the seen set. -/
def step (a : Auth) : Op → Auth × Ev
  | .value none =>
    let (n, c) := uniqueFrom valName a.vnames a.vc
    ({ a with vc := c, vnames := n :: a.vnames }, ⟨false, true, n⟩)
  | .value (some s) => ({ a with vnames := s :: a.vnames }, ⟨false, false, s⟩)
  | .node none op =>
    let (n, c) := uniqueFrom (nodeName op) a.nnames a.nc
    ({ a with nc := c, nnames := n :: a.nnames }, ⟨true, true, n⟩)
  | .node (some s) _ => ({ a with nnames := s :: a.nnames }, ⟨true, false, s⟩)

/-- A history of calls; returns the final authority and the per-call events. -/
def run : List Op → Auth → Auth × List Ev
  | [], a => (a, [])
  | op :: ops, a =>
    let (a1, e) := step a op
    let (a2, es) := run ops a1
    (a2, e :: es)

/-- seen set of the namespace an event belongs to -/
def Auth.seen (a : Auth) (isNode : Bool) : List String := if isNode then a.nnames else a.vnames

def upd {α : Type} (f : Nat → α) (i : Nat) (x : α) : Nat → α := fun j => if j = i then x else f j
def updS (f : String → Nat) (k : String) (x : Nat) : String → Nat := fun j => if j = k then x else f j

/-! ### Part A, graph level: the objects of one graph and every way a name reaches the authority

`Graph.__init__/append/extend/insert_*` call `register_or_name_*` (`_core.py`,
`_set_input_and_initializer_value_names_into_name_authority`, `_set_node_graph_to_self_and_assign_names`);
values joining `graph.inputs / outputs / initializers` (the `_set_graph` hooks of
`_graph_containers.py`), the constructor's outputs, and the `Value.name` / `Node.name` setters of
objects owned by the graph call the record-only `register_value_name / register_node_name`.
Objects are creation indices; `vown` / `nown` are the values / nodes the graph currently owns
(`value.graph is g`, `node.graph is g`). -/

structure GSt where
  auth : Auth := {}
  vname : Nat → Option String
  nname : Nat → Option String
  vown : List Nat := []
  nown : List Nat := []

inductive GOp where
  /-- `register_or_name_value(value)`: constructor inputs / initializers, outputs of an added node -/
  | regValue (v : Nat)
  /-- `register_or_name_node(node)` of a node with this `op_type` -/
  | regNode (n : Nat) (opType : String)
  /-- `register_value_name(value.name)`: the value joins inputs / outputs / initializers -/
  | noteValue (v : Nat)
  /-- the user's `value.name = name` -/
  | setValue (v : Nat) (name : Option String)
  /-- the user's `node.name = name` -/
  | setNode (n : Nat) (name : Option String)
  /-- the value is no longer owned by the graph (its node was removed, it was popped from
  inputs / outputs / initializers) -/
  | dropValue (v : Nat)
  | dropNode (n : Nat)
deriving Repr, DecidableEq

/-- `register_value_name` / `register_node_name`: record, never name -/
def Auth.note (a : Auth) (isNode : Bool) (name : Option String) : Auth :=
  match name with
  | none => a
  | some s => if isNode then { a with nnames := s :: a.nnames } else { a with vnames := s :: a.vnames }

def gstep (st : GSt) : GOp → GSt
  | .regValue v =>
    let r := step st.auth (.value (st.vname v))
    { st with auth := r.1, vname := upd st.vname v (some r.2.name), vown := v :: st.vown }
  | .regNode n op =>
    let r := step st.auth (.node (st.nname n) op)
    { st with auth := r.1, nname := upd st.nname n (some r.2.name), nown := n :: st.nown }
  | .noteValue v => { st with auth := st.auth.note false (st.vname v), vown := v :: st.vown }
  | .setValue v name =>
    -- `if self._name == value: return`; the owner (if any) learns the new name
    if st.vname v = name then st else
    { st with vname := upd st.vname v name,
              auth := if st.vown.contains v then st.auth.note false name else st.auth }
  | .setNode n name =>
    { st with nname := upd st.nname n name,
              auth := if st.nown.contains n then st.auth.note true name else st.auth }
  | .dropValue v => { st with vown := st.vown.filter (· != v) }
  | .dropNode n => { st with nown := st.nown.filter (· != n) }

def grun (ops : List GOp) (st : GSt) : GSt := ops.foldl gstep st



/-! ## Part B — NameFixPass (`passes/common/naming.py`)

Values, nodes and graphs are identified by creation indices.  The object graph the pass walks is
the tree `Tr`; names and the initializer dictionaries are in `World`, the pass-local bookkeeping
in `FixSt`.  Only the default `SimpleNameGenerator` is modelled (`value.name or "v"`,
`node.name or "node"`). -/

/-- `f"{preferred_name}_{counter[preferred_name]}"` (`_find_and_record_next_unique_name`) -/
def sufName (p : String) (k : Nat) : String := p ++ "_" ++ toString k

/-- `_find_and_record_next_unique_name` without the final `used_names.add`:

      new_name = preferred
      while new_name in used_names or new_name in reserved_names:
          counter[preferred] += 1
          new_name = f"{preferred}_{counter[preferred]}"

`c` is `counter[preferred]` before the call; returns the name and `counter[preferred]` after. -/
def findUnique (p : String) (used reserved : List String) (c : Nat) : String × Nat :=
  if (used ++ reserved).contains p then
    let r := uniqueFrom (sufName p) (used ++ reserved) (c + 1)
    (r.1, r.2 - 1)
  else (p, c)

/-- Python truthiness of `value.name` / `node.name` (`None` and `""` are falsy) -/
def truthy : Option String → Bool
  | some s => s != ""
  | none => false


/-- `dict.pop(key)` on an insertion-ordered dict -/
def dictErase (d : List (String × Nat)) (k : String) : List (String × Nat) := d.filter (fun e => e.1 != k)
/-- `dict[key] = v`: replace in place when the key exists, else append -/
def dictSet (d : List (String × Nat)) (k : String) (v : Nat) : List (String × Nat) :=
  if d.any (fun e => e.1 == k) then d.map (fun e => if e.1 == k then (k, v) else e) else d ++ [(k, v)]
def dictHas (d : List (String × Nat)) (k : String) : Bool := d.any (fun e => e.1 == k)

/-- The part of the IR that naming touches: value names, node names, for every value whether it
`is_initializer()` and of which graph (`initOf v = some g`), and `graph.initializers` of every
graph as an insertion-ordered dict `name -> value`. -/
structure World where
  vname : Nat → Option String
  nname : Nat → Option String
  initOf : Nat → Option Nat
  dicts : Nat → List (String × Nat)

/-- `Value.name = new` for a string `new` (`_core.py`, `Value.name` setter).  No-op when equal; for
an initializer: the guards (empty name; another initializer holds the key) raise *before* anything
changes; then the name, then `graph.initializers.pop(old)`; `graph.initializers[new] = self`.
Returns the world and whether an exception escaped. -/
def World.setName (w : World) (v : Nat) (new : String) : World × Bool :=
  if w.vname v = some new then (w, false) else
  match w.initOf v with
  | none => ({ w with vname := upd w.vname v (some new) }, false)
  | some g =>
    if new = "" then (w, true) else
    if (match (w.dicts g).lookup new with | some u => u != v | none => false) then (w, true) else
    match w.vname v with
    | none => ({ w with vname := upd w.vname v (some new) }, true)  -- `assert old_name is not None`
    | some old =>
      let w1 := { w with vname := upd w.vname v (some new) }
      if dictHas (w.dicts g) old then
        ({ w1 with dicts := upd w.dicts g (dictSet (dictErase (w.dicts g) old) new v) }, false)
      else (w1, true)  -- `KeyError` of `pop`

/-- State of one `NameFixPass.call`: the world plus what is local to `_fix_graph_names`
(`naming.py`, `seen_values`, the two scope stacks, the two counters, the reserved names). -/
structure FixSt extends World where
  seen : List Nat := []
  vstack : List (List String) := [[]]
  nstack : List (List String) := [[]]
  vcnt : String → Nat := fun _ => 0
  ncnt : String → Nat := fun _ => 0
  resV : List String := []
  resN : List String := []
  modified : Bool := false
  /-- an exception escaped (`ValueError` of the initializer guard, `KeyError`, `AssertionError`) -/
  raised : Bool := false

/-- `used_names.add(name)` on the innermost scope -/
def pushTop (stk : List (List String)) (n : String) : List (List String) :=
  match stk with
  | top :: rest => (n :: top) :: rest
  | [] => [[n]]

def topOf (stk : List (List String)) : List String := stk.head?.getD []

/-- `value.name = <generated>` inside the pass, then `modified = True; seen_values.add(value)`
unless the setter raised -/
def renameTo (st : FixSt) (v : Nat) (p : String) : FixSt :=
  let r := findUnique p (topOf st.vstack) st.resV (st.vcnt p)
  let st := { st with vcnt := updS st.vcnt p r.2, vstack := pushTop st.vstack r.1 }
  let wr := st.toWorld.setName v r.1
  if wr.2 then { st with toWorld := wr.1, raised := true }
  else { st with toWorld := wr.1, modified := true, seen := v :: st.seen }

/-- `_process_value`: skip seen values; unnamed -> `_assign_value_name` (preferred "v"); named ->
`_fix_duplicate_value_name` (record when unused, else rename with the own name as base); then
mark seen. -/
def processValue (st : FixSt) (v : Nat) : FixSt :=
  if st.raised then st else
  if st.seen.contains v then st else
  if !truthy (st.vname v) then renameTo st v "v"
  else
    let s := (st.vname v).getD ""
    if !(topOf st.vstack).contains s then { st with vstack := pushTop st.vstack s, seen := v :: st.seen }
    else renameTo st v s

/-- `_assign_node_name` / `_fix_duplicate_node_name` (nodes have no `seen` set) -/
def fixNodeName (st : FixSt) (n : Nat) : FixSt :=
  if st.raised then st else
  let top := topOf st.nstack
  if !truthy (st.nname n) then
    let r := findUnique "node" top st.resN (st.ncnt "node")
    { st with ncnt := updS st.ncnt "node" r.2, nstack := pushTop st.nstack r.1,
              nname := upd st.nname n (some r.1), modified := true }
  else
    let s := (st.nname n).getD ""
    if !top.contains s then { st with nstack := pushTop st.nstack s }
    else
      let r := findUnique s top st.resN (st.ncnt s)
      { st with ncnt := updS st.ncnt s r.2, nstack := pushTop st.nstack r.1,
                nname := upd st.nname n (some r.1), modified := true }

def processValues (st : FixSt) (vs : List Nat) : FixSt := vs.foldl processValue st

/-- values of `node.inputs` that are not `None`, then `node.outputs` -/
def nodeVals (ins : List (Option Nat)) (outs : List Nat) : List Nat := ins.filterMap id ++ outs

/-- the callback `enter_graph`: push a copy of the parent's value-name set and an empty node-name
set; inputs, outputs, a snapshot of the initializers (`hasInits`: of the `Graph`, or of the graph
underlying a `Function`), then the outputs `bouts` of the graph's own nodes — so that nested graphs
see every name of their enclosing graphs. -/
def enterGraph (st : FixSt) (g : Nat) (hasInits : Bool) (ins outs bouts : List Nat) : FixSt :=
  if st.raised then st else
  let st := { st with vstack := topOf st.vstack :: st.vstack, nstack := [] :: st.nstack }
  let st := processValues st ins
  let st := processValues st outs
  let st := if hasInits then processValues st ((st.dicts g).map (·.2)) else st
  processValues st bouts

/-- the callback `exit_graph` -/
def exitGraph (st : FixSt) : FixSt :=
  if st.raised then st else { st with vstack := st.vstack.tail, nstack := st.nstack.tail }

/-- loop body of `_fix_graph_names` for one yielded node -/
def visitNode (st : FixSt) (n : Nat) (ins : List (Option Nat)) (outs : List Nat) : FixSt :=
  processValues (fixNodeName st n) (nodeVals ins outs)

/-- What `RecursiveGraphIterator` walks.  A list of items; in a graph body the items are `node`s
(`subs` = the graphs held by its GRAPH / GRAPHS attributes in attribute order, `rest` = the
following nodes); in a `subs` list the items are `graph`s (`rest` = the following sibling
graphs). -/
inductive Tr where
  | nil
  | node (nid : Nat) (ins : List (Option Nat)) (outs : List Nat) (subs : Tr) (rest : Tr)
  | graph (gid : Nat) (isGraph : Bool) (ins outs : List Nat) (body : Tr) (rest : Tr)
deriving Repr

/-- `for node in graph_like: ... node.outputs`: the outputs of the nodes directly in the item
list `t` -/
def bodyOuts : Tr → List Nat
  | .nil => []
  | .node _ _ outs _ rest => outs ++ bodyOuts rest
  | .graph _ _ _ _ _ rest => bodyOuts rest

/-- `RecursiveGraphIterator._recursive_node_iter` + `_iterate_subgraphs` (`traversal.py`) with the
pass's loop body.  A graph attribute is *entered twice* (once by `_iterate_subgraphs`, once by the
nested iterator's `_recursive_node_iter`) and left twice. -/
def runTr : Tr → FixSt → FixSt
  | .nil, st => st
  | .node n ins outs subs rest, st =>
    let st := visitNode st n ins outs
    let st := runTr subs st
    runTr rest st
  | .graph g isG ins outs body rest, st =>
    let st := enterGraph st g isG ins outs (bodyOuts body)
    let st := enterGraph st g isG ins outs (bodyOuts body)
    let st := runTr body st
    let st := exitGraph (exitGraph st)
    runTr rest st

/-- the truthy names among `ids` -/
def truthyNames (f : Nat → Option String) (ids : List Nat) : List String :=
  ids.filterMap (fun i => if truthy (f i) then f i else none)

/-- the read-only pre-pass of `_fix_graph_names` (`collect_graph_names` + its loop): every truthy
value name and node name reachable from the graph. Returns `(reserved_value_names,
reserved_node_names)`. -/
def collectTr (w : World) : Tr → List String × List String → List String × List String
  | .nil, acc => acc
  | .node n ins outs subs rest, acc =>
    let acc := (truthyNames w.vname (nodeVals ins outs) ++ acc.1, truthyNames w.nname [n] ++ acc.2)
    collectTr w rest (collectTr w subs acc)
  | .graph g isG ins outs body rest, acc =>
    let vs := ins ++ outs ++ (if isG then (w.dicts g).map (·.2) else [])
    let acc := (truthyNames w.vname vs ++ acc.1, acc.2)
    collectTr w rest (collectTr w body acc)

/-- a top-level graph or function: `(id, is a Graph, inputs, outputs, body)` -/
structure Top where
  gid : Nat
  isGraph : Bool
  ins : List Nat
  outs : List Nat
  body : Tr
deriving Repr

def Top.tr (t : Top) : Tr := .graph t.gid t.isGraph t.ins t.outs t.body .nil

/-- `_fix_graph_names(graph_like)`: fresh bookkeeping, the pre-pass, then the traversal (the
top-level graph is entered once). `modified` of the result = this call's flag. -/
def fixTop (w : World) (t : Top) : FixSt :=
  let res := collectTr w t.tr ([], [])
  let st : FixSt := { toWorld := w, resV := res.1, resN := res.2 }
  let st := enterGraph st t.gid t.isGraph t.ins t.outs (bodyOuts t.body)
  let st := runTr t.body st
  exitGraph st

/-- `NameFixPass.call`: the main graph, then every function; `modified` is the disjunction.
Returns `(world, modified, raised)`. -/
def fixModel (w : World) : List Top → World × Bool × Bool
  | [] => (w, false, false)
  | t :: ts =>
    let st := fixTop w t
    if st.raised then (st.toWorld, st.modified, true)
    else
      let r := fixModel st.toWorld ts
      (r.1, st.modified || r.2.1, r.2.2)

/-! ### specification vocabulary for the NameFixPass theorems

`iv g` = the values held by `graph g`'s initializer dictionary.  These functions do not look at
names: they describe which values a traversal meets in which scope. -/

/-- the values held by the initializer dictionary of graph `g` -/
def World.inits (w : World) (g : Nat) : List Nat := (w.dicts g).map (·.2)

/-- values processed by `enter_graph` -/
def gvals (iv : Nat → List Nat) (g : Nat) (isG : Bool) (ins outs bouts : List Nat) : List Nat :=
  ins ++ outs ++ (if isG then iv g else []) ++ bouts

/-- `seen_values` (as a list) after the traversal of `t`, started with `S` -/
def seenAfter (iv : Nat → List Nat) : Tr → List Nat → List Nat
  | .nil, S => S
  | .node _ ins outs subs rest, S => seenAfter iv rest (seenAfter iv subs (S ++ nodeVals ins outs))
  | .graph g isG ins outs body rest, S => seenAfter iv rest (seenAfter iv body (S ++ gvals iv g isG ins outs (bodyOuts body)))

/-- the values recorded in the *current* scope after the items of `t` (nested graphs record into
their own scopes: for a list `subs` of graph items `bodyVis subs V = V`) -/
def bodyVis : Tr → List Nat → List Nat
  | .nil, V => V
  | .node _ ins outs subs rest, V => bodyVis rest (bodyVis subs (V ++ nodeVals ins outs))
  | .graph _ _ _ _ _ rest, V => bodyVis rest V

/-- **the scoping rule**: whenever the traversal meets a value it has met before (`S`), that
value is visible in the current scope (`V` = the values recorded in this graph so far and in the
enclosing graphs before this graph was entered).  I.e. a value is only used in the graph that
first mentions it or in graphs nested inside that graph after the first mention. -/
def scopedB (iv : Nat → List Nat) : Tr → List Nat → List Nat → Bool
  | .nil, _, _ => true
  | .node _ ins outs subs rest, S, V =>
    (nodeVals ins outs).all (fun v => !S.contains v || V.contains v)
    && scopedB iv subs (S ++ nodeVals ins outs) (V ++ nodeVals ins outs)
    && scopedB iv rest (seenAfter iv subs (S ++ nodeVals ins outs)) (bodyVis subs (V ++ nodeVals ins outs))
  | .graph g isG ins outs body rest, S, V =>
    (gvals iv g isG ins outs (bodyOuts body)).all (fun v => !S.contains v || V.contains v)
    && scopedB iv body (S ++ gvals iv g isG ins outs (bodyOuts body)) (V ++ gvals iv g isG ins outs (bodyOuts body))
    && scopedB iv rest (seenAfter iv body (S ++ gvals iv g isG ins outs (bodyOuts body))) V

/-- for every graph under `t`: the values whose names must be pairwise different — those recorded
in enclosing scopes before the graph was entered, followed by the graph's own values -/
def allScopes (iv : Nat → List Nat) : Tr → List Nat → List (List Nat)
  | .nil, _ => []
  | .node _ ins outs subs rest, V =>
    allScopes iv subs (V ++ nodeVals ins outs) ++ allScopes iv rest (bodyVis subs (V ++ nodeVals ins outs))
  | .graph g isG ins outs body rest, V =>
    bodyVis body (V ++ gvals iv g isG ins outs (bodyOuts body))
      :: (allScopes iv body (V ++ gvals iv g isG ins outs (bodyOuts body)) ++ allScopes iv rest V)

/-! #### without the scoping rule: the values *recorded* in a scope

On an ill-scoped model a value may be met in a graph although it was first met (and its name recorded) in another
scope that is not visible there: it is then skipped (`seen_values`) and its name is *not* in the used-name set of
the current scope.  `recVals S V vs` = the values recorded in the current scope after `vs` was processed: those in
`V` plus the members of `vs` that had not been seen (`S`).  `recScopes` lists, for every graph under `t`, the values
recorded in enclosing scopes before the graph was entered followed by the values first met in the graph itself. -/

def recVals (S V vs : List Nat) : List Nat := V ++ vs.filter (fun v => !S.contains v)

/-- the values recorded in the *current* scope after the items of `t` -/
def bodyVisR (iv : Nat → List Nat) : Tr → List Nat → List Nat → List Nat
  | .nil, _, V => V
  | .node _ ins outs subs rest, S, V =>
    bodyVisR iv rest (seenAfter iv subs (S ++ nodeVals ins outs))
      (bodyVisR iv subs (S ++ nodeVals ins outs) (recVals S V (nodeVals ins outs)))
  | .graph g isG ins outs body rest, S, V =>
    bodyVisR iv rest (seenAfter iv body (S ++ gvals iv g isG ins outs (bodyOuts body))) V

/-- for every graph under `t`: the values whose names the pass makes pairwise different whatever the scoping -/
def recScopes (iv : Nat → List Nat) : Tr → List Nat → List Nat → List (List Nat)
  | .nil, _, _ => []
  | .node _ ins outs subs rest, S, V =>
    recScopes iv subs (S ++ nodeVals ins outs) (recVals S V (nodeVals ins outs))
      ++ recScopes iv rest (seenAfter iv subs (S ++ nodeVals ins outs))
           (bodyVisR iv subs (S ++ nodeVals ins outs) (recVals S V (nodeVals ins outs)))
  | .graph g isG ins outs body rest, S, V =>
    bodyVisR iv body (S ++ gvals iv g isG ins outs (bodyOuts body)) (recVals S V (gvals iv g isG ins outs (bodyOuts body)))
      :: (recScopes iv body (S ++ gvals iv g isG ins outs (bodyOuts body)) (recVals S V (gvals iv g isG ins outs (bodyOuts body)))
          ++ recScopes iv rest (seenAfter iv body (S ++ gvals iv g isG ins outs (bodyOuts body))) V)

/-- the nodes directly in the item list `t` (`bodyNodes subs = []` for a list of graph items) -/
def bodyNodes : Tr → List Nat
  | .nil => []
  | .node n _ _ subs rest => n :: (bodyNodes subs ++ bodyNodes rest)
  | .graph _ _ _ _ _ rest => bodyNodes rest

/-- for every graph under `t`: its direct nodes -/
def allNodeScopes : Tr → List (List Nat)
  | .nil => []
  | .node _ _ _ subs rest => allNodeScopes subs ++ allNodeScopes rest
  | .graph _ _ _ _ body rest => bodyNodes body :: (allNodeScopes body ++ allNodeScopes rest)

/-- every node under `t` -/
def allNodes : Tr → List Nat
  | .nil => []
  | .node n _ _ subs rest => n :: (allNodes subs ++ allNodes rest)
  | .graph _ _ _ _ body rest => allNodes body ++ allNodes rest

/-- every value mentioned under `t` (not through initializer dictionaries) -/
def mentioned : Tr → List Nat
  | .nil => []
  | .node _ ins outs subs rest => nodeVals ins outs ++ (mentioned subs ++ mentioned rest)
  | .graph _ _ ins outs body rest => ins ++ outs ++ (mentioned body ++ mentioned rest)

/-- the `Graph`s (not `Function`s) under `t` -/
def graphsOf : Tr → List Nat
  | .nil => []
  | .node _ _ _ subs rest => graphsOf subs ++ graphsOf rest
  | .graph g isG _ _ body rest => (if isG then [g] else []) ++ (graphsOf body ++ graphsOf rest)

/-- the lists of values owned by the graphs under `t` (inputs, outputs, initializers, outputs of
the graph's own nodes), one list per graph -/
def ownedLists (iv : Nat → List Nat) : Tr → List (List Nat)
  | .nil => []
  | .node _ _ _ subs rest => ownedLists iv subs ++ ownedLists iv rest
  | .graph g isG ins outs body rest =>
    gvals iv g isG ins outs (bodyOuts body) :: (ownedLists iv body ++ ownedLists iv rest)

/-- two lists share no element -/
def DisjointL (a b : List Nat) : Prop := ∀ x ∈ a, x ∉ b

/-- **ownership rule** (declarative, no traversal state): every value a node mentions is owned by the
node's graph or by an enclosing graph (`V` = the values owned by the enclosing graphs and this
graph) — wherever in those graphs it is defined: forward references and forward captures are fine -/
def wellOwnedB (iv : Nat → List Nat) : Tr → List Nat → Bool
  | .nil, _ => true
  | .node _ ins outs subs rest, V =>
    (nodeVals ins outs).all (fun v => V.contains v)
    && wellOwnedB iv subs (V ++ nodeVals ins outs)
    && wellOwnedB iv rest (bodyVis subs (V ++ nodeVals ins outs))
  | .graph g isG ins outs body rest, V =>
    wellOwnedB iv body (V ++ gvals iv g isG ins outs (bodyOuts body)) && wellOwnedB iv rest V

/-- executable form of the hypothesis `Closed` (every initializer mentioned under `t` belongs to a
`Graph` under `t`); `closedB_iff` in `Lemmas/NamesTotal.lean` -/
def closedB (io : Nat → Option Nat) (t : Top) : Bool :=
  (mentioned t.tr).all (fun v => match io v with
    | some g => (graphsOf t.tr).contains g
    | none => true)

/-! ## Part C — `convenience.rename_values` (`_convenience/__init__.py:364-453`)

On the same `World`.  Arguments are typed (`values` are value ids, `names` are strings), so the two
`TypeError`s and the length check are outside the model. -/

/-- first loop: drop repeated `(value, same name)` pairs, reject conflicting targets
(`ValueError`); `none` = raised. `acc` is `ordered_pairs` reversed. -/
def dedupPairs : List (Nat × String) → List (Nat × String) → Option (List (Nat × String))
  | [], acc => some acc.reverse
  | (v, n) :: rest, acc =>
    match acc.lookup v with
    | some n' => if n' != n then none else dedupPairs rest acc
    | none => dedupPairs rest ((v, n) :: acc)

/-- `initializer_pairs_by_graph`: graphs in order of first occurrence, pairs in order -/
def groupByGraph (initOf : Nat → Option Nat) (pairs : List (Nat × String)) : List (Nat × List (Nat × String)) :=
  let gs := (pairs.filterMap (fun p => initOf p.1)).eraseDups
  gs.map (fun g => (g, pairs.filter (fun p => initOf p.1 == some g)))

/-- `existing is not None and existing is not value` -/
def isOther (o : Option Nat) (v : Nat) : Bool :=
  match o with
  | some e => e != v
  | none => false

/-- `name in graph.initializers` held by a value that is neither `value` nor in the renamed set -/
def isOutside (o : Option Nat) (v : Nat) (renamed : List Nat) : Bool :=
  match o with
  | some ex => ex != v && !renamed.contains ex
  | none => false

/-- the validation loop for one graph (`seen_targets` as an association list); `false` = raises
`ValueError`: empty target, two renamed initializers with one target, or a target held by an
initializer outside the renamed set -/
def validateLoop (d : List (String × Nat)) (renamed : List Nat) :
    List (Nat × String) → List (String × Nat) → Bool
  | [], _ => true
  | (v, n) :: rest, seenT =>
    if n == "" then false
    else if isOther (seenT.lookup n) v then false
    else if isOutside (d.lookup n) v renamed then false
    else validateLoop d renamed rest ((n, v) :: seenT)

def validateAll (w : World) (groups : List (Nat × List (Nat × String))) : Bool :=
  groups.all (fun gp => validateLoop (w.dicts gp.1) (gp.2.map (·.1)) gp.2 [])

/-- `graph.initializers.pop(value.name)`: `__delitem__` clears `is_initializer` -/
def popInit (wr : World × Bool) (g v : Nat) : World × Bool :=
  if wr.2 then wr else
  let w := wr.1
  match w.vname v with
  | none => (w, true)  -- `assert value.name is not None`
  | some k =>
    if dictHas (w.dicts g) k then
      ({ w with dicts := upd w.dicts g (dictErase (w.dicts g) k),
                initOf := upd w.initOf (((w.dicts g).lookup k).getD v) none }, false)
    else (w, true)  -- `KeyError`

/-- `graph.initializers.add(value)` = `self[value.name] = value` (`_graph_containers.py`,
`GraphInitializers.__setitem__`): empty / missing name raises; an existing holder of the key is
unset; the value becomes an initializer of the graph. (Values with a producer are outside the
model.) -/
def addInit (wr : World × Bool) (g v : Nat) : World × Bool :=
  if wr.2 then wr else
  let w := wr.1
  match w.vname v with
  | none => (w, true)
  | some k =>
    if k == "" then (w, true) else
    match w.initOf v with
    | some g' => if g' != g then (w, true) else addCore w g v k
    | none => addCore w g v k
where
  addCore (w : World) (g v : Nat) (k : String) : World × Bool :=
    let io := match (w.dicts g).lookup k with
      | some old => upd w.initOf old none
      | none => w.initOf
    ({ w with dicts := upd w.dicts g (dictSet (w.dicts g) k v), initOf := upd io v (some g) }, false)

def setNameStep (wr : World × Bool) (p : Nat × String) : World × Bool :=
  if wr.2 then wr else wr.1.setName p.1 p.2

/-- `for graph, initializer_values in ...items(): for value in initializer_values:` as one list of
`(graph, value, target)` in iteration order -/
def initTriples (groups : List (Nat × List (Nat × String))) : List (Nat × Nat × String) :=
  groups.flatMap (fun gp => gp.2.map (fun p => (gp.1, p.1, p.2)))

/-- `rename_values(values, names)`: validate everything first; then detach the renamed
initializers, assign all names, re-register.  Returns the world and whether it raised. -/
def renameValues (w : World) (pairs : List (Nat × String)) : World × Bool :=
  match dedupPairs pairs [] with
  | none => (w, true)
  | some ordered =>
    let groups := groupByGraph w.initOf ordered
    if !validateAll w groups then (w, true) else
    let trip := initTriples groups
    let wr : World × Bool := (w, false)
    let wr := trip.foldl (fun wr t => popInit wr t.1 t.2.1) wr
    let wr := ordered.foldl setNameStep wr
    trip.foldl (fun wr t => addInit wr t.1 t.2.1) wr


/-! ### Part C with the backing tensors (`value.const_value`, possibly shared by several values)

`rename_values` renames the backing tensors *first* (`tensor.name = name` may be refused by a
tensor object) and undoes those renames when one is refused, before anything else is touched. -/

/-- the world plus the tensors: `constOf v` = the tensor backing value `v`; `frozen t` = assigning
`tensor.name` raises -/
structure TWorld extends World where
  constOf : Nat → Option Nat
  tname : Nat → Option String
  frozen : Nat → Bool

/-- `for tensor, old in reversed(renamed_tensors): tensor.name = old` (`undo` is kept reversed) -/
def undoAll : List (Nat × Option String) → (Nat → Option String) → (Nat → Option String)
  | [], tn => tn
  | (t, old) :: r, tn => undoAll r (upd tn t old)

/-- `tensor = value.const_value; if tensor is not None and value.name != name`: the tensor this
pair renames, if any -/
def renTensor (w : TWorld) (p : Nat × String) : Option Nat :=
  match w.constOf p.1 with
  | some t => if w.vname p.1 != some p.2 then some t else none
  | none => none

/-- the `try:` loop: rename the tensor of every pair whose value gets a different name; on a refusal
undo and raise.  Returns the tensor names and whether it raised. -/
def tensorLoop (w : TWorld) : List (Nat × String) → (Nat → Option String) → List (Nat × Option String) →
    (Nat → Option String) × Bool
  | [], tn, _ => (tn, false)
  | p :: rest, tn, undo =>
    match renTensor w p with
    | some t =>
      if w.frozen t then (undoAll undo tn, true)
      else tensorLoop w rest (upd tn t (some p.2)) ((t, tn t) :: undo)
    | none => tensorLoop w rest tn undo

/-- the tensor side of `value.name = name` in the third loop (`Value.name` setter: "Rename the
backing constant tensor") — the same assignments once more -/
def tensorAssign (w : TWorld) : List (Nat × String) → (Nat → Option String) → (Nat → Option String)
  | [], tn => tn
  | p :: rest, tn =>
    match renTensor w p with
    | some t => tensorAssign w rest (upd tn t (some p.2))
    | none => tensorAssign w rest tn

/-- the phases of `rename_values` after validation, on the name / dictionary side -/
def applyRename (w : World) (ordered : List (Nat × String)) : World × Bool :=
  let trip := initTriples (groupByGraph w.initOf ordered)
  let wr : World × Bool := (w, false)
  let wr := trip.foldl (fun wr t => popInit wr t.1 t.2.1) wr
  let wr := ordered.foldl setNameStep wr
  trip.foldl (fun wr t => addInit wr t.1 t.2.1) wr

/-- `rename_values` with backing tensors -/
def renameValuesT (w : TWorld) (pairs : List (Nat × String)) : TWorld × Bool :=
  match dedupPairs pairs [] with
  | none => (w, true)
  | some ordered =>
    if !validateAll w.toWorld (groupByGraph w.initOf ordered) then (w, true) else
    let tl := tensorLoop w ordered w.tname []
    if tl.2 then ({ w with tname := tl.1 }, true) else
    let wr := applyRename w.toWorld ordered
    ({ w with toWorld := wr.1, tname := tensorAssign w ordered tl.1 }, wr.2)

/-! ## Part B+ — NameFixPass with an arbitrary `NameGenerator` and with the backing tensors

`NameFixPass(name_generator=...)` (`naming.py:73-86`) asks the generator for the *preferred* name of
an unnamed object (`_assign_value_name`, `_assign_node_name`) and for the base name of a duplicate
(`_fix_duplicate_*_name`); `_find_and_record_next_unique_name` then suffixes it.  A generator is an
arbitrary Python object; what it answers for an object is modelled as a function of the object
(creation index) and of the name the object carries at that moment.  Every value is handed to the
generator at most once per call (`seen_values`) and every node once per occurrence, so the answers of
a *stateful* generator during one run are such a function too (the harness records them and the model
is run on the recorded table; the model's own sequence of generator calls `glog` must be the
recorded one).

`Value.name = new` writes the name through to the backing tensor (`_core.py`, `Value.name` setter,
"Rename the backing constant tensor") after the initializer guards and before anything else; a
tensor object may refuse (`frozen`), then the setter raises with nothing changed and the pass stops
in the middle. -/

structure NameGen where
  /-- `generate_value_name(value)` -/
  v : Nat → Option String → String
  /-- `generate_node_name(node)` -/
  n : Nat → Option String → String

/-- `SimpleNameGenerator`: `value.name or "v"`, `node.name or "node"` (`naming.py:33-42`) -/
def simpleGen : NameGen :=
  { v := fun _ nm => if truthy nm then nm.getD "" else "v"
    n := fun _ nm => if truthy nm then nm.getD "" else "node" }

/-- the guards of the `Value.name` setter, which raise before anything is changed: an initializer
cannot get the empty name or a name that keys another initializer of its graph -/
def World.nameGuard (w : World) (v : Nat) (new : String) : Bool :=
  match w.initOf v with
  | none => false
  | some g => new == "" || (match (w.dicts g).lookup new with | some u => u != v | none => false)

/-- `Value.name = new` with the tensor write-through.  Order of effects as in the setter: equal
name -> return; guards; `self._const_value.name = value` (may raise: nothing changed yet); then the
name and the re-keying (`World.setName`, whose own guards have passed). -/
def TWorld.setNameT (w : TWorld) (v : Nat) (new : String) : TWorld × Bool :=
  if w.vname v = some new then (w, false) else
  if w.toWorld.nameGuard v new then (w, true) else
  match w.constOf v with
  | some t =>
    if w.frozen t then (w, true)
    else
      let r := w.toWorld.setName v new
      ({ w with toWorld := r.1, tname := upd w.tname t (some new) }, r.2)
  | none =>
    let r := w.toWorld.setName v new
    ({ w with toWorld := r.1 }, r.2)

/-- `FixSt` plus the tensors and the log of generator calls (`true` = node) in call order, newest
first -/
structure FixStX extends FixSt where
  constOf : Nat → Option Nat
  tname : Nat → Option String
  frozen : Nat → Bool
  glog : List (Bool × Nat) := []

def FixStX.tw (st : FixStX) : TWorld :=
  { toWorld := st.toWorld, constOf := st.constOf, tname := st.tname, frozen := st.frozen }

/-- `value.name = _find_and_record_next_unique_name(p, ...)` with `p` the generator's answer -/
def renameToX (st : FixStX) (v : Nat) (p : String) : FixStX :=
  let r := findUnique p (topOf st.vstack) st.resV (st.vcnt p)
  let wr := st.tw.setNameT v r.1
  let st := { st with vcnt := updS st.vcnt p r.2, vstack := pushTop st.vstack r.1, glog := (false, v) :: st.glog }
  if wr.2 then
    { st with toWorld := wr.1.toWorld, constOf := wr.1.constOf, tname := wr.1.tname, frozen := wr.1.frozen, raised := true }
  else
    { st with toWorld := wr.1.toWorld, constOf := wr.1.constOf, tname := wr.1.tname, frozen := wr.1.frozen,
              modified := true, seen := v :: st.seen }

/-- `_process_value` with the generator `gen` -/
def processValueX (gen : NameGen) (st : FixStX) (v : Nat) : FixStX :=
  if st.raised then st else
  if st.seen.contains v then st else
  if !truthy (st.vname v) then renameToX st v (gen.v v (st.vname v))
  else
    let s := (st.vname v).getD ""
    if !(topOf st.vstack).contains s then { st with vstack := pushTop st.vstack s, seen := v :: st.seen }
    else renameToX st v (gen.v v (st.vname v))

/-- `_assign_node_name` / `_fix_duplicate_node_name` with the generator `gen` -/
def fixNodeNameX (gen : NameGen) (st : FixStX) (n : Nat) : FixStX :=
  if st.raised then st else
  let top := topOf st.nstack
  if !truthy (st.nname n) then
    let p := gen.n n (st.nname n)
    let r := findUnique p top st.resN (st.ncnt p)
    { st with ncnt := updS st.ncnt p r.2, nstack := pushTop st.nstack r.1,
              nname := upd st.nname n (some r.1), modified := true, glog := (true, n) :: st.glog }
  else
    let s := (st.nname n).getD ""
    if !top.contains s then { st with nstack := pushTop st.nstack s }
    else
      let p := gen.n n (st.nname n)
      let r := findUnique p top st.resN (st.ncnt p)
      { st with ncnt := updS st.ncnt p r.2, nstack := pushTop st.nstack r.1,
                nname := upd st.nname n (some r.1), modified := true, glog := (true, n) :: st.glog }

def processValuesX (gen : NameGen) (st : FixStX) (vs : List Nat) : FixStX := vs.foldl (processValueX gen) st

def enterGraphX (gen : NameGen) (st : FixStX) (g : Nat) (hasInits : Bool) (ins outs bouts : List Nat) : FixStX :=
  if st.raised then st else
  let st := { st with vstack := topOf st.vstack :: st.vstack, nstack := [] :: st.nstack }
  let st := processValuesX gen st ins
  let st := processValuesX gen st outs
  let st := if hasInits then processValuesX gen st ((st.dicts g).map (·.2)) else st
  processValuesX gen st bouts

def exitGraphX (st : FixStX) : FixStX :=
  if st.raised then st else { st with vstack := st.vstack.tail, nstack := st.nstack.tail }

def visitNodeX (gen : NameGen) (st : FixStX) (n : Nat) (ins : List (Option Nat)) (outs : List Nat) : FixStX :=
  processValuesX gen (fixNodeNameX gen st n) (nodeVals ins outs)

def runTrX (gen : NameGen) : Tr → FixStX → FixStX
  | .nil, st => st
  | .node n ins outs subs rest, st =>
    let st := visitNodeX gen st n ins outs
    let st := runTrX gen subs st
    runTrX gen rest st
  | .graph g isG ins outs body rest, st =>
    let st := enterGraphX gen st g isG ins outs (bodyOuts body)
    let st := enterGraphX gen st g isG ins outs (bodyOuts body)
    let st := runTrX gen body st
    let st := exitGraphX (exitGraphX st)
    runTrX gen rest st

/-- the state `_fix_graph_names` starts from -/
def initX (w : TWorld) (t : Top) (glog : List (Bool × Nat)) : FixStX :=
  let res := collectTr w.toWorld t.tr ([], [])
  { toWorld := w.toWorld, resV := res.1, resN := res.2, constOf := w.constOf, tname := w.tname, frozen := w.frozen,
    glog := glog }

/-- `_fix_graph_names(graph_like)` with generator and tensors -/
def fixTopX (gen : NameGen) (w : TWorld) (t : Top) (glog : List (Bool × Nat) := []) : FixStX :=
  let st := initX w t glog
  let st := enterGraphX gen st t.gid t.isGraph t.ins t.outs (bodyOuts t.body)
  let st := runTrX gen t.body st
  exitGraphX st

/-- result of `NameFixPass(name_generator=gen).call` -/
structure XRes where
  w : TWorld
  modified : Bool
  raised : Bool
  glog : List (Bool × Nat)

/-- `NameFixPass.call` with generator and tensors -/
def fixModelX (gen : NameGen) (w : TWorld) (glog : List (Bool × Nat) := []) : List Top → XRes
  | [] => ⟨w, false, false, glog⟩
  | t :: ts =>
    let st := fixTopX gen w t glog
    if st.raised then ⟨st.tw, st.modified, true, st.glog⟩
    else
      let r := fixModelX gen st.tw st.glog ts
      ⟨r.w, st.modified || r.modified, r.raised, r.glog⟩

/-- executable form of `InitsOk` on the id range of a request (`nv` values, `ng` graphs) -/
def initsOkB (w : World) (nv ng : Nat) : Bool :=
  (List.range ng).all (fun g =>
    (w.dicts g).all (fun e => w.vname e.2 == some e.1 && e.1 != "" && w.initOf e.2 == some g)
    && decide ((w.dicts g).map (·.1)).Nodup)
  && (List.range nv).all (fun v => match w.initOf v with
      | some g => (w.dicts g).any (fun e => e.2 == v)
      | none => true)


end IrVerif.Names

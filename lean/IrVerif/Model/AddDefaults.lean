import IrVerif.Model.Inline
/-!
# Model/AddDefaults.lean — AddDefaultAttributesPass (property C05)

Transcription of src/onnx_ir/passes/common/default_attributes.py over the function-call IR of
Model/Inline.lean.  The pass reads ONNX's operator schemas (C++ tables behind `onnx.defs.get_schema`); the
model takes them as a PARAMETER: `SchemaTable` = domain, operator type, opset version ↦ the attribute
declarations of the schema that `get_schema` returns for that version (`none`: `SchemaError`), each with its
`required` flag and its default value (`none` when `_has_valid_default` is false: no default value or a
default of type UNDEFINED; default_attributes.py:21-25).

What the IR does not carry is passed next to the model: the opset imports of the MAIN graph with their
versions (the pass uses `model.graph.opset_imports` for the nodes of function bodies as well, lines 46-50;
transcribed as it is) and the per-node opset version `ir.Node.version` (`nver`; `None` for every node that
comes out of the deserializer).  Graph-valued attributes are the `bodies` of a node and have no names in
this IR: a graph attribute stored under the name of a schema attribute that has a default is not
representable (no ONNX schema declares a default for a graph attribute).  Core Lean only.
-/
namespace IrVerif.Inline
open IrVerif.Sem IrVerif.Passes

/-- one entry of `op_schema.attributes`: name, `attr_def.required`, the default value when
    `_has_valid_default(attr_def)` -/
structure SchemaAttr where
  name : String
  required : Bool
  default : Option AttrData
deriving Inhabited

/-- `onnx.defs.get_schema(op_type, version, domain=domain).attributes.items()`; `none` = `SchemaError` -/
abbrev SchemaTable := String → String → Nat → Option (List SchemaAttr)

/-- default_attributes.py:61-72: `node.version` if it is set, else the version the main graph imports for
    `node.domain`, else the node is skipped -/
def lookupVersion (imports : List (String × Nat)) (nodeVersion : Option Nat) (domain : String) : Option Nat :=
  match nodeVersion with
  | some v => some v
  | none => imports.lookup domain

/-- the schema attributes the pass iterates over for a node (lines 61-82): none when the version is not found
    or the schema does not exist.  The overload of the operator identifier plays no part. -/
def nodeSchema (T : SchemaTable) (imports : List (String × Nat)) (nver : FNode → Option Nat) (n : FNode) :
    List SchemaAttr :=
  match lookupVersion imports (nver n) n.op.domain with
  | none => []
  | some v => (T n.op.domain n.op.name v).getD []

/-- the loop of default_attributes.py:86-100 over `op_schema.attributes.items()`: an attribute that is required
    or already present in `node.attributes` (as a value or as a reference) is skipped, so is one without a valid
    default; otherwise `node.attributes[attr_name] = default` (appended: a dictionary keeps insertion order) -/
def addMissing : List (String × FAttr) → List SchemaAttr → List (String × FAttr)
  | attrs, [] => attrs
  | attrs, a :: rest =>
    if a.required || (attrs.map Prod.fst).contains a.name then addMissing attrs rest
    else match a.default with
      | none => addMissing attrs rest
      | some d => addMissing (attrs ++ [(a.name, .val d)]) rest

mutual
/-- `for node in RecursiveGraphIterator(graph)`: every node, then the nodes of its subgraphs -/
def addDefG (S : FNode → List SchemaAttr) : FGraph → FGraph
  | .mk inputs outputs inits nodes => .mk inputs outputs inits (addDefNodes S nodes)
def addDefNodes (S : FNode → List SchemaAttr) : List FNode → List FNode
  | [] => []
  | n :: ns => addDefN S n :: addDefNodes S ns
/-- `_add_default_attributes_to_node` (the schema is looked up for the node as it is before the visit) -/
def addDefN (S : FNode → List SchemaAttr) : FNode → FNode
  | .mk op attrs ins outs bodies =>
    .mk op (addMissing attrs (S (.mk op attrs ins outs bodies))) ins outs (addDefBodies S bodies)
def addDefBodies (S : FNode → List SchemaAttr) : List FGraph → List FGraph
  | [] => []
  | b :: bs => addDefG S b :: addDefBodies S bs
end

def addDefFunc (S : FNode → List SchemaAttr) (f : Func) : Func := { f with nodes := addDefNodes S f.nodes }

/-- `AddDefaultAttributesPass.call` (default_attributes.py:37-57): the main graph, then every function of the
    model, both with the opset imports of the main graph -/
def addDefaultsModel (T : SchemaTable) (imports : List (String × Nat)) (nver : FNode → Option Nat) (m : FModel) :
    FModel :=
  { graph := addDefG (nodeSchema T imports nver) m.graph,
    funcs := m.funcs.map (addDefFunc (nodeSchema T imports nver)),
    domains := m.domains }

mutual
/-- `p` holds of every node (deep) -/
def allNodesG (p : FNode → Bool) : FGraph → Bool
  | .mk _ _ _ nodes => allNodesNodes p nodes
def allNodesNodes (p : FNode → Bool) : List FNode → Bool
  | [] => true
  | n :: ns => allNodesN p n && allNodesNodes p ns
def allNodesN (p : FNode → Bool) : FNode → Bool
  | .mk op attrs ins outs bodies => p (.mk op attrs ins outs bodies) && allNodesBodies p bodies
def allNodesBodies (p : FNode → Bool) : List FGraph → Bool
  | [] => true
  | b :: bs => allNodesG p b && allNodesBodies p bs
end

mutual
/-- number of nodes (deep) that satisfy `p` -/
def countNodesG (p : FNode → Bool) : FGraph → Nat
  | .mk _ _ _ nodes => countNodesNodes p nodes
def countNodesNodes (p : FNode → Bool) : List FNode → Nat
  | [] => 0
  | n :: ns => countNodesN p n + countNodesNodes p ns
def countNodesN (p : FNode → Bool) : FNode → Nat
  | .mk op attrs ins outs bodies => (if p (.mk op attrs ins outs bodies) then 1 else 0) + countNodesBodies p bodies
def countNodesBodies (p : FNode → Bool) : List FGraph → Nat
  | [] => 0
  | b :: bs => countNodesG p b + countNodesBodies p bs
end

/-- the pass gives the node new attributes -/
def touched (S : FNode → List SchemaAttr) (n : FNode) : Bool := addMissing n.attrs (S n) != n.attrs

/-- decidable hypothesis of `C05_add_defaults` (evaluated by the driver on every generated case): a node that
    calls a model-local function gets no new attribute (a local function that shadows an ONNX operator which
    has defaults would: the binding of the call would change) -/
def callsUntouched (S : FNode → List SchemaAttr) (m : FModel) : Bool :=
  allNodesG (fun n => !((findFunc m.funcs n.op).isSome && touched S n)) m.graph &&
  m.funcs.all (fun f => allNodesNodes (fun n => !((findFunc m.funcs n.op).isSome && touched S n)) f.nodes)

/-- `modified` of the PassResult: some node got a new attribute -/
def addDefaultsModified (S : FNode → List SchemaAttr) (m : FModel) : Bool :=
  !(allNodesG (fun n => !touched S n) m.graph && m.funcs.all (fun f => allNodesNodes (fun n => !touched S n) f.nodes))

end IrVerif.Inline

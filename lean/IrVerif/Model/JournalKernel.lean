import IrVerif.Model.Kernel
import IrVerif.Model.Journal
/-!
# The journal model instantiated with the IR kernel (C20 round 3)

`Model/Journal.lean` leaves the instrumented operations abstract (`Cfg.impl`: any interaction tree).
Here they are the operations of the C01 kernel (`Model/Kernel.lean`, read only):

* `callTree w op` — the instrumented calls that the public call `op` makes on the kernel state `w`, in
  program order, nested as `_core.py` / `_graph_containers.py` / `_convenience` nest them (depth at
  most 3: e.g. `Graph.__init__` calls `Graph.extend` calls the `Node.graph` setter).  The numbers are
  indices into `Journal.slots`.  Compared with the call trees observed on the real code
  (`sys.monitoring`) for every generated kernel history (`journal.kernel`).
* `kCfg` — the `Cfg` whose original functions perform exactly these calls; `opProg op` is the user
  code of one kernel call: it makes the top-level instrumented calls of `callTree`, then the kernel
  state becomes `(Kernel.stepAny w op).1` and the outcome is the kernel's.  (The kernel updates its
  state atomically per public call; a wrapper cannot tell where inside the call the update happens:
  the only wrapper code that looks at the IR is a `details` expression, and those are pure — here by
  definition of `kCfg.details`, on the real code by the probing oracle of harness/c20.py.)
* objects: kernel ids are per class; `KObj.enc` packs class and id into one `Obj`.  The tracked
  containers (`graph.inputs`, `graph.outputs`, `graph.initializers`, `node.attributes`) are objects of
  their own; `kOwner` is their `_graph` / `_owner`.

Round 4: the extended C01 alphabet is instantiated too (`Node.name=` / `op_type=`, `const_value = None`,
`Graph.sort()` decided by the kernel's own sort model and with its receiver, attribute edits, `Node(..., attributes=...)`,
`Tape.initializer`, `Builder`, the atomic `convenience.replace_all_uses_with`), instrumented calls carry their return
value (`ret`; the only instrumented function that returns something is `_GraphIO.pop`), and a public call may be
*spelled* (`Spell`): through an `ir.Function` (created on first use: `Function.__init__`), through `Node.append` /
`Node.prepend`, with `Attr` objects built for it (`Attr.__init__`), or with `|=` (no `__setitem__`).  `GCall` is what the
journal model needs to know about one public call; `KCall` = kernel op + spelling.  Objects that are not kernel state
(`Function`, `Attr`) are numbered by the harness.

Not instantiated: a non-`Attr` attribute argument (type-incorrect, the kernel op cannot carry it), `Value(producer, index=...)`
and `Node(outputs=[initializer])` (C01 finding D12b).
-/
namespace IrVerif.Journal

abbrev KW := IrVerif.Kernel.World

inductive KObj where
  | val (i : Nat) | node (i : Nat) | graph (i : Nat) | inputs (g : Nat) | outputs (g : Nat)
  | inits (g : Nat) | attrs (n : Nat) | tensor (i : Nat)
  /-- an `Attr` object (numbered by the harness in creation order) -/
  | attr (i : Nat)
  /-- the `ir.Function` wrapping graph `g` -/
  | func (g : Nat)
  deriving DecidableEq, Repr

def KObj.enc : KObj → Obj
  | .val i => 16 * i
  | .node i => 16 * i + 1
  | .graph i => 16 * i + 2
  | .inputs g => 16 * g + 3
  | .outputs g => 16 * g + 4
  | .inits g => 16 * g + 5
  | .attrs n => 16 * n + 6
  | .tensor i => 16 * i + 7
  | .attr i => 16 * i + 8
  | .func g => 16 * g + 9

/-- `_graph` of an input / output / initializer container, `_owner` of an attribute container -/
def kOwner (o : Obj) : Obj :=
  if o % 16 = 3 ∨ o % 16 = 4 ∨ o % 16 = 5 then 16 * (o / 16) + 2
  else if o % 16 = 6 then 16 * (o / 16) + 1 else o

/-- an instrumented call that makes no instrumented call; `ret` = what the original returns when it completes -/
structure L0 where
  slot : Nat
  self : Obj
  ok : Bool := true
  ret : Val := .none
  deriving DecidableEq, Repr

structure L1 where
  slot : Nat
  self : Obj
  kids : List L0 := []
  ok : Bool := true
  ret : Val := .none
  deriving DecidableEq, Repr

structure L2 where
  slot : Nat
  self : Obj
  kids : List L1 := []
  ok : Bool := true
  ret : Val := .none
  deriving DecidableEq, Repr

def lift0 (c : L0) : L1 := { slot := c.slot, self := c.self, kids := [], ok := c.ok, ret := c.ret }
def lift1 (c : L1) : L2 := { slot := c.slot, self := c.self, kids := c.kids.map lift0, ok := c.ok, ret := c.ret }

def okOf : Kernel.Outcome → Bool
  | .ok => true
  | .raised _ => false

/-- exception code of a rejected kernel call (the kernel's `kind` string is information only) -/
def kernelExn : Nat := 3

def outOf (ok : Bool) : Outcome := if ok then .ret .none else .raise kernelExn

/-- a completed call returns `v`, a rejected one raises -/
def outOfV (ok : Bool) (v : Val) : Outcome := if ok then .ret v else .raise kernelExn

/-- constructors and property setters return None whatever the register says (`ProcNone` by construction) -/
def retFor (k : Nat) (v : Val) : Val := if kindOf k = .init ∨ kindOf k = .setter then .none else v

/-- outcome of the original function of slot `k` -/
def outT (k : Nat) (ok : Bool) (v : Val) : Outcome := outOfV ok (retFor k v)

/-! ## call trees -/

/-- `_set_node_graph_to_self_and_assign_names` (_core.py 3819-3827): the name authority assigns
    `node.name` / `value.name` through the (patched) property setters when they are None, then
    `node.graph = self` -/
def attachKids (w : KW) (n : Nat) : List L0 :=
  (if (w.node n).name = none then [{ slot := 2, self := (KObj.node n).enc }] else []) ++
  (((w.node n).outputs.filter (fun o => decide ((w.val o).name = none))).map
    (fun o => ({ slot := 13, self := (KObj.val o).enc } : L0))) ++
  [{ slot := 11, self := (KObj.node n).enc }]

/-- `Graph.extend` after its checks: one attach per node (state as `Kernel.extendMut` threads it) -/
def extendKids (w : KW) (g : Nat) : List Nat → List L0
  | [] => []
  | n :: rest =>
    attachKids w n ++
      extendKids (Kernel.nodeLink (Kernel.assignNames w g n) g (w.gr g).nodes.getLast? n) g rest

/-- `Graph.insert_after` / `insert_before` after their checks (state as `Kernel.linkMany`) -/
def linkKids (w : KW) (g : Nat) (anchor : Option Nat) : List Nat → List L0
  | [] => []
  | n :: rest =>
    attachKids w n ++ linkKids (Kernel.nodeLink (Kernel.assignNames w g n) g anchor n) g (some n) rest

/-- `register_or_name_value` over a list of values: the `Value.name` setter for the unnamed ones -/
def nameKids (w : KW) (g : Nat) : List Nat → List L1
  | [] => []
  | v :: rest =>
    (if (w.val v).name = none then [{ slot := 13, self := (KObj.val v).enc }] else []) ++
      nameKids (Kernel.registerValue w g v) g rest

/-- `initializers[key] = v` (slot 40): an unnamed value is named after the key through the setter -/
def initSetTree (w : KW) (g : Nat) (key : String) (v : Nat) : L2 :=
  let ok := okOf (Kernel.initSetItem w g key v).2
  { slot := 40, self := (KObj.inits g).enc, ok := ok,
    kids := if ok && Kernel.falsy (w.val v).name then [{ slot := 13, self := (KObj.val v).enc }] else [] }

def initUpdateTrees (w : KW) (g : Nat) : List (String × Nat) → List L2
  | [] => []
  | (k, v) :: rest => initSetTree w g k v :: initUpdateTrees (Kernel.initSetItem w g k v).1 g rest

/-- `Value.replace_all_uses_with` (_core.py 3449-3500): a graph output is re-assigned through
    `graph.outputs[i] = replacement` (the patched `_GraphIO.__setitem__`), the uses through
    `replace_input_with` (not instrumented) -/
def rauwTree (w : KW) (v r : Nat) (rgo : Bool) : L2 :=
  let self := (KObj.val v).enc
  if (w.val v).isOut then
    match (w.val v).graph with
    | some g =>
      let c := (KObj.outputs g).enc
      if !rgo then { slot := 17, self := self, ok := false }
      else if !Kernel.checkIO w g .out r then
        { slot := 17, self := self, ok := false, kids := [{ slot := 39, self := c, ok := false }] }
      else { slot := 17, self := self,
             kids := ((w.gr g).outputs.filter (· = v)).map (fun _ => ({ slot := 39, self := c } : L1)) }
    | none => { slot := 17, self := self, ok := false }
  else { slot := 17, self := self }

/-- `Value.name = s` (_core.py 3294-3330): an initializer is re-keyed (`initializers.pop(old)`, which
    is `__delitem__`, then `initializers[new] = self`) -/
def setNameTree (w : KW) (v : Nat) (s : Option String) : L2 :=
  let ok := okOf (Kernel.setName w v s).2
  { slot := 13, self := (KObj.val v).enc, ok := ok,
    kids := if ok && decide ((w.val v).name ≠ s) && (w.val v).isInit then
        match (w.val v).graph with
        | some g => [{ slot := 41, self := (KObj.inits g).enc }, { slot := 40, self := (KObj.inits g).enc }]
        | none => []
      else [] }

/-- placeholder receiver of `Graph.sort` (see the file comment) -/
def sortSelf : Obj := 2

def sortKids (w : KW) : List (Nat × List Nat) → List L1
  | [] => []
  | p :: rest =>
    if p.2.isPerm (w.gr p.1).nodes && p.2.all (Kernel.nodeAcceptable w p.1) then
      { slot := 22, self := (KObj.graph p.1).enc, kids := extendKids w p.1 p.2 } ::
        sortKids (Kernel.extendMut w p.1 p.2) rest
    else sortKids w rest

def ioSelf (g : Nat) : Kernel.IOKind → Obj
  | .inp => (KObj.inputs g).enc
  | .out => (KObj.outputs g).enc

/-- which `_GraphIO` method a mutator of the tracked lists goes through (`none`: not instrumented:
    `del lst[i]`, `del lst[a:b]`, `reverse`, and `+=` / `*=` which are refused) -/
def ioSlot : Kernel.IOMut → Option Nat
  | .append _ => some 33
  | .extend _ => some 34
  | .insert _ _ => some 35
  | .pop _ => some 36
  | .remove _ => some 37
  | .clear => some 38
  | .setItem _ _ => some 39
  | .setSlice _ _ _ _ => some 39
  | _ => none

/-- what the `_GraphIO` method returns: `pop` the removed value, everything else None -/
def ioRet (w : KW) (g : Nat) (k : Kernel.IOKind) : Kernel.IOMut → Val
  | .pop i =>
    let l := Kernel.ioList k (w.gr g)
    match Kernel.normIndex l.length i with
    | some p => match l[p]? with
      | some v => .ref (KObj.val v).enc
      | none => .none
    | none => .none
  | _ => .none

def initTrees (w : KW) (g : Nat) (m : Kernel.InitMut) : List L2 :=
  let c := (KObj.inits g).enc
  let ok := okOf (Kernel.initMut w g m).2
  match m with
  | .setItem key v => [initSetTree w g key v]
  | .delItem _ => [{ slot := 41, self := c, ok := ok }]
  | .add _ => [{ slot := 40, self := c, ok := ok }]
  -- `MutableMapping.pop`: `self[key]` raises KeyError before `del self[key]` is reached
  | .pop _ => if ok then [{ slot := 41, self := c }] else []
  | .popitem => if ok then [{ slot := 41, self := c }] else []
  -- `MutableMapping.clear`: `popitem` until KeyError
  | .clear => (w.gr g).inits.map (fun _ => ({ slot := 41, self := c } : L2))
  -- `update`: every entry is checked first; then one `__setitem__` per entry
  | .update kvs => if ok then initUpdateTrees w g kvs else []
  -- `MutableMapping.setdefault`: only an absent key is assigned
  | .setdefault key v =>
    if (Kernel.lookupInit (w.gr g).inits key).isSome then [] else [initSetTree w g key v]
  -- `Graph.register_initializer` (_core.py 3741-3770): its own checks, then `initializers.add(value)`
  | .register v =>
    let nm := (w.val v).name
    let key := nm.getD ""
    let ownBad := nm.isNone || key = "" || (match Kernel.lookupInit (w.gr g).inits key with
        | some old => decide (old ≠ v)
        | none => false) || decide ((w.val v).const = none)
    if ownBad then [{ slot := 20, self := (KObj.graph g).enc, ok := false }]
    else [{ slot := 20, self := (KObj.graph g).enc, ok := ok, kids := [{ slot := 40, self := c, ok := ok }] }]

/-- `Node.__init__` (_core.py 2166-2260): the attribute dict is built first (`Attributes(attributes, owner=self)`:
    one `__setitem__` per distinct key, also when the node is then rejected), then the output check, then
    `_create_outputs` builds the missing outputs (`Value(...)`), then `graph.append(self)` when `graph=` is given -/
def newNodeTree (w : KW) (ok : Bool) (opType : String) (name : Option String) (inputs : List (Option Nat))
    (numOutputs : Option Int) (outputs : Option (List Nat)) (graph : Option Nat)
    (attrs : List (String × List Nat)) : L2 :=
  let n := w.nodes.length
  let setAttrs : List L1 := (Kernel.initAttrs attrs).map (fun _ => ({ slot := 42, self := (KObj.attrs n).enc } : L1))
  if !ok then { slot := 1, self := (KObj.node n).enc, ok := false, kids := setAttrs }
  else
    let created : List L1 := match outputs with
      | some _ => []
      | none => (List.range (numOutputs.getD 1).toNat).map
          (fun i => ({ slot := 12, self := (KObj.val (w.vals.length + i)).enc } : L1))
    let w1 := Kernel.newNodeMut w opType name inputs numOutputs outputs
    { slot := 1, self := (KObj.node n).enc,
      kids := setAttrs ++ created ++ match graph with
        | none => []
        | some g => [{ slot := 21, self := (KObj.graph g).enc, kids := attachKids w1 n }] }

/-- The matches of `opTrees` / `convTrees` are exhaustive on purpose: when the C01 kernel alphabet grows, this file
    stops compiling at the missing case.  Whoever adds the constructor and cannot write its call tree yet must map it
    to `notInstantiated` (never to `[]`): the harness reports a tree with slot 999 as a broken correspondence that
    names the operation (`harness/c20.py`, `K_INSTANTIATED`). -/
def notInstantiated : List L2 := [{ slot := 999, self := 0 }]

/-- the instrumented calls of a single kernel call, in program order -/
def opTrees (w : KW) (op : Kernel.Op) : List L2 :=
  let ok := okOf (Kernel.step w op).2
  match op with
  | .newValue _ => [{ slot := 12, self := (KObj.val w.vals.length).enc }]
  -- the harness creates the tensor (`TensorBase.__init__`), then `value.const_value = tensor`
  | .setConst v _ =>
    [{ slot := 0, self := (KObj.tensor w.tensors.length).enc }, { slot := 16, self := (KObj.val v).enc }]
  | .newNode opType name inputs numOutputs outputs graph =>
    [newNodeTree w ok opType name inputs numOutputs outputs graph []]
  -- `Graph.__init__` (_core.py 3664-3713)
  | .newGraph inputs outputs nodes inits =>
    let g := w.graphs.length
    if !ok then [{ slot := 19, self := (KObj.graph g).enc, ok := false }]
    else
      let w0 := w.setGr g {}
      let w1 := Kernel.ioInsertMany w0 g .inp 0 inputs
      let w2 := Kernel.ioInsertMany w1 g .out 0 outputs
      let d := Kernel.initDict w inits
      let w3 := d.foldl (fun w p => Kernel.initPut w g p.1 p.2) w2
      let w4 := inputs.foldl (fun w v => Kernel.registerValue w g v) w3
      let w5 := d.foldl (fun w p => Kernel.registerValue w g p.2) w4
      [{ slot := 19, self := (KObj.graph g).enc,
         kids := [{ slot := 34, self := (KObj.inputs g).enc }, { slot := 34, self := (KObj.outputs g).enc }] ++
           d.map (fun _ => ({ slot := 40, self := (KObj.inits g).enc } : L1)) ++
           nameKids w3 g inputs ++
           [{ slot := 22, self := (KObj.graph g).enc, kids := extendKids w5 g nodes }] }]
  | .replaceInput _ _ _ => []
  | .resizeInputs n _ => [{ slot := 7, self := (KObj.node n).enc, ok := ok }]
  | .resizeOutputs n k =>
    let cur := (w.node n).outputs.length
    let newSize : Nat := if k < 0 then ((cur : Int) + k).toNat else k.toNat
    [{ slot := 10, self := (KObj.node n).enc, ok := ok,
       kids := if ok then (List.range (newSize - cur)).map
         (fun i => ({ slot := 12, self := (KObj.val (w.vals.length + i)).enc } : L1)) else [] }]
  | .rauw v r rgo => [rauwTree w v r rgo]
  | .io g k m =>
    match ioSlot m with
    | some s => [{ slot := s, self := ioSelf g k, ok := ok, ret := ioRet w g k m }]
    | none => []
  | .init g m => initTrees w g m
  | .setName v s => [setNameTree w v s]
  | .append g n =>
    [{ slot := 21, self := (KObj.graph g).enc, ok := ok,
       kids := if ok then (attachKids w n).map lift0 else [] }]
  | .extend g ns =>
    [{ slot := 22, self := (KObj.graph g).enc, ok := ok,
       kids := if ok then (extendKids w g ns).map lift0 else [] }]
  | .insertAfter g a ns =>
    [{ slot := 24, self := (KObj.graph g).enc, ok := ok,
       kids := if ok then (linkKids w g (some a) ns).map lift0 else [] }]
  | .insertBefore g a ns =>
    [{ slot := 25, self := (KObj.graph g).enc, ok := ok,
       kids := if ok then (linkKids w g (Kernel.predOf (w.gr g).nodes a) ns).map lift0 else [] }]
  -- `Graph.remove` (_core.py 3983-4021): `node.graph = None` per node of the (frozen)set
  | .remove g ns _ =>
    [{ slot := 23, self := (KObj.graph g).enc, ok := ok,
       kids := if ok then (Kernel.dedup ns).map (fun n => ({ slot := 11, self := (KObj.node n).enc } : L1))
               else [] }]
  -- `Graph.sort` (_core.py 4073-4140): `graph.extend(sorted_nodes)` per involved graph
  | .sortOk orders => [{ slot := 26, self := sortSelf, ok := ok, kids := if ok then sortKids w orders else [] }]
  | .sortCycle => [{ slot := 26, self := sortSelf, ok := false }]
  | .attrEdit => []
  | .newNodeAttrs opType name inputs numOutputs outputs graph attrs =>
    [newNodeTree w ok opType name inputs numOutputs outputs graph attrs]
  -- `Graph.sort()` decided by the kernel's sort model: the receiver is the graph, one `extend` per involved graph
  | .sort g =>
    match Sort.sortModel (Kernel.treeOf w g) with
    | none => [{ slot := 26, self := (KObj.graph g).enc, ok := false }]
    -- (`sorted_nodes_by_graph` only has the graphs in which a node was found: a graph without nodes is not re-extended)
    | some orders =>
      [{ slot := 26, self := (KObj.graph g).enc, ok := ok,
         kids := if ok then sortKids w (orders.filter (fun p => !p.2.isEmpty)) else [] }]
  | .setNodeName n _ => [{ slot := 2, self := (KObj.node n).enc }]
  | .setOpType n _ => [{ slot := 5, self := (KObj.node n).enc }]
  | .clearConst v => [{ slot := 16, self := (KObj.val v).enc }]
  -- `node.attributes[key] = attr` and its spellings `add` / `update` / `setdefault` (absent key): `__setitem__`;
  -- `del` / `pop` / `popitem` / `clear` go through `__delitem__`, which is not instrumented
  | .attrSet n _ _ => [{ slot := 42, self := (KObj.attrs n).enc }]
  | .attrDel _ _ _ => []
  | .attrClear _ => []

/-- `convenience.replace_all_uses_with`: one `Value.replace_all_uses_with` per pair, up to and
    including the first rejected one -/
def rauwSeqTrees (w : KW) (rgo : Bool) : List (Nat × Nat) → List L2
  | [] => []
  | (v, r) :: rest =>
    let res := Kernel.rauw w v r rgo
    if okOf res.2 then rauwTree w v r rgo :: rauwSeqTrees res.1 rgo rest else [rauwTree w v r rgo]

def rauwManyTrees (w : KW) (vs rs : List Nat) (rgo : Bool) : List L2 :=
  if vs.length ≠ rs.length then [] else rauwSeqTrees w rgo (vs.zip rs)

/-- the graphs of the renamed initializers, in order of first occurrence (a `dict` keyed by graph) -/
def groupGraphs (w : KW) (ips : List (Nat × String)) : List Nat :=
  Kernel.dedup (ips.filterMap (fun p => (w.val p.1).graph))

/-- `convenience.rename_values` after its validation (_convenience/__init__.py 459-470): per graph
    `initializers.pop(old)` for the renamed initializers, `value.name = name` for every pair, per
    graph `initializers.add(value)` -/
def renameTrees (w : KW) (vs : List Nat) (names : List String) : List L2 :=
  if !okOf (Kernel.renameValues w vs names).2 then [] else
  match Kernel.dedupPairs [] (vs.zip names) with
  | none => []
  | some pairs =>
    let ips := pairs.filter (fun p => (w.val p.1).isInit)
    let grouped := (groupGraphs w ips).flatMap (fun g =>
      (ips.filter (fun p => decide ((w.val p.1).graph = some g))).map (fun _ => g))
    grouped.map (fun g => ({ slot := 41, self := (KObj.inits g).enc } : L2)) ++
    pairs.map (fun p => ({ slot := 13, self := (KObj.val p.1).enc } : L2)) ++
    grouped.map (fun g => ({ slot := 40, self := (KObj.inits g).enc } : L2))

/-- the copying loop of `replace_nodes_and_values` (_convenience/__init__.py 533-545): four property
    assignments per pair; the last one (`name`) may be refused -/
def copyInfoTrees (w : KW) : List (Nat × Nat) → List L2
  | [] => []
  | (o, n) :: rest =>
    let w1 := match (w.val o).const with
      | some t => w.setVal n { w.val n with const := some t }
      | none => w
    let nameTree : L2 := match (w1.val o).name with
      | some s => setNameTree w1 n (some s)
      | none => { slot := 13, self := (KObj.val n).enc }
    let r := match (w1.val o).name with
      | some s => Kernel.setName w1 n (some s)
      | none => (w1, .ok)
    [{ slot := 14, self := (KObj.val n).enc }, { slot := 15, self := (KObj.val n).enc },
     { slot := 16, self := (KObj.val n).enc }, nameTree] ++
      (if okOf r.2 then copyInfoTrees r.1 rest else [])

def replaceTrees (w : KW) (g ip : Nat) (oldNodes newNodes oldVals newVals : List Nat) : List L2 :=
  let r1 := Kernel.copyInfo w (oldVals.zip newVals)
  copyInfoTrees w (oldVals.zip newVals) ++
  (if !okOf r1.2 then [] else
    let r2 := Kernel.rauwMany r1.1 oldVals newVals true
    rauwManyTrees r1.1 oldVals newVals true ++
    (if !okOf r2.2 then [] else
      let r3 := Kernel.graphInsertAfter r2.1 g ip newNodes
      opTrees r2.1 (.insertAfter g ip newNodes) ++
      (if !okOf r3.2 then [] else opTrees r3.1 (.remove g oldNodes true))))

/-- `convenience.replace_all_uses_with` with the up-front check of every pair (repo commit c936126): nothing is called
    when a pair would be rejected -/
def rauwManyExactTrees (w : KW) (vs rs : List Nat) (rgo : Bool) : List L2 :=
  if vs.length ≠ rs.length then []
  else if !okOf (Kernel.rauwSeq w rgo (vs.zip rs)).2 then []
  else rauwSeqTrees w rgo (vs.zip rs)

def replaceTreesExact (w : KW) (g ip : Nat) (oldNodes newNodes oldVals newVals : List Nat) : List L2 :=
  let r1 := Kernel.copyInfo w (oldVals.zip newVals)
  copyInfoTrees w (oldVals.zip newVals) ++
  (if !okOf r1.2 then [] else
    let r2 := Kernel.rauwManyExact r1.1 oldVals newVals true
    rauwManyExactTrees r1.1 oldVals newVals true ++
    (if !okOf r2.2 then [] else
      let r3 := Kernel.graphInsertAfter r2.1 g ip newNodes
      opTrees r2.1 (.insertAfter g ip newNodes) ++
      (if !okOf r3.2 then [] else opTrees r3.1 (.remove g oldNodes true))))

/-- `value.name = name` for each pair, stopping after the first rejected one (`Kernel.setNameSeq`) -/
def setNameSeqTrees (w : KW) : List (Nat × String) → List L2
  | [] => []
  | (v, s) :: rest =>
    let r := Kernel.setName w v (some s)
    setNameTree w v (some s) :: (if okOf r.2 then setNameSeqTrees r.1 rest else [])

/-- `Tape.initializer(tensor, name)` (_tape.py 194-205) after the harness built the tensor: `ir.Value(..., const_value=
    tensor)` unless no name can be found, then `graph.register_initializer(value)` when the tape is bound to a graph.
    `mid` = instrumented calls of the spelling between the tensor and the value (an `ir.Function` made for the tape) -/
def tapeInitTrees (w : KW) (g : Option Nat) (name tname : Option String) (locked : Bool) (mid : List L2) : List L2 :=
  let t := w.tensors.length
  let v := w.vals.length
  ({ slot := 0, self := (KObj.tensor t).enc } : L2) :: (mid ++
  match (if Kernel.falsy name then tname else name) with
  | none => []
  | some nm =>
    let w1 := ({ w with tensors := Kernel.lset w.tensors t tname, locked := Kernel.lset w.locked t locked }).setVal v
      { name := some nm, const := some t }
    ({ slot := 12, self := (KObj.val v).enc } : L2) ::
      (match g with
       | none => []
       | some gi => initTrees w1 gi (.register v)))

/-- `Builder(graph).<OpType>(...)` (_tape.py 213-242): the node, then one `Value.name = ...` per requested name -/
def builderTrees (w : KW) (g : Option Nat) (opType : String) (inputs : List (Option Nat)) (k : Nat)
    (names : Option (List String)) : List L2 :=
  let r := Kernel.newNode w opType none inputs (some (k : Int)) none g
  opTrees w (.newNode opType none inputs (some (k : Int)) none g) ++
  (if !okOf r.2 then [] else
    match names with
    | none => []
    | some ns => setNameSeqTrees r.1 ((r.1.node w.nodes.length).outputs.zip ns))

def convTrees (w : KW) : Kernel.ConvOp → List L2
  | .rauwMany vs rs rgo => rauwManyTrees w vs rs rgo
  | .renameValues vs names => renameTrees w vs names
  | .replaceNodesAndValues g ip oldNodes newNodes oldVals newVals =>
    replaceTrees w g ip oldNodes newNodes oldVals newVals
  | .rauwManyExact vs rs rgo => rauwManyExactTrees w vs rs rgo
  | .replaceNodesAndValuesExact g ip oldNodes newNodes oldVals newVals =>
    replaceTreesExact w g ip oldNodes newNodes oldVals newVals
  | .tapeInitializer g name tname locked => tapeInitTrees w g name tname locked []
  | .builderNode g opType inputs k names => builderTrees w g opType inputs k names

/-- the instrumented calls of one public call of the C01 alphabet on state `w` -/
def callTree (w : KW) : Kernel.AnyOp → List L2
  | .one op => opTrees w op
  | .conv op => convTrees w op

/-! ## spelled calls -/

/-- How a public call of the kernel alphabet is written on the real objects, as far as it decides which
    instrumented functions run.  (Supplied by the harness; the kernel op does not carry it.) -/
structure Spell where
  /-- the call goes through the `ir.Function` wrapping the graph and that object is created by this call
      (first use): `Function.__init__` runs first.  Later uses delegate to the graph's methods and containers
      without any further instrumented call. -/
  newFunction : Option Nat := none
  /-- `Attr` objects built for this call (`Attr.__init__` each), in order -/
  newAttrs : List Nat := []
  /-- `anchor.append(nodes)` / `anchor.prepend(nodes)` (`Node.append` / `Node.prepend`, _core.py 2495-2520)
      instead of `graph.insert_after` / `insert_before` -/
  viaNode : Bool := false
  /-- the attribute dict is written with `|=` (`UserDict.__ior__` updates `self.data`: no `__setitem__`) -/
  noSetItem : Bool := false
  deriving Repr

structure KCall where
  op : Kernel.AnyOp
  sp : Spell := {}
  deriving Repr

/-- the constructor calls of the spelling -/
def Spell.pre (sp : Spell) : List L2 :=
  (match sp.newFunction with
   | some g => [({ slot := 28, self := (KObj.func g).enc } : L2)]
   | none => []) ++
  sp.newAttrs.map (fun a => ({ slot := 32, self := (KObj.attr a).enc } : L2))

/-- `Node.append` (slot 9) / `Node.prepend` (slot 8) around the graph's method -/
def nodeSpelled (slot : Nat) (a : Nat) (t : L2) : L2 :=
  { slot := slot, self := (KObj.node a).enc, ok := t.ok,
    kids := [{ slot := t.slot, self := t.self, ok := t.ok, kids := t.kids.map (fun c => ({ slot := c.slot, self := c.self, ok := c.ok, ret := c.ret } : L0)) }] }

/-- the instrumented calls of one public call as it is spelled -/
def callTreeX (w : KW) (c : KCall) : List L2 :=
  match c.op with
  | .conv (.tapeInitializer g name tname locked) => tapeInitTrees w g name tname locked c.sp.pre
  | .one (.insertAfter g a ns) =>
    c.sp.pre ++ (if c.sp.viaNode then (opTrees w (.insertAfter g a ns)).map (nodeSpelled 9 a) else opTrees w (.insertAfter g a ns))
  | .one (.insertBefore g a ns) =>
    c.sp.pre ++ (if c.sp.viaNode then (opTrees w (.insertBefore g a ns)).map (nodeSpelled 8 a) else opTrees w (.insertBefore g a ns))
  | .one (.attrSet n key gs) => c.sp.pre ++ (if c.sp.noSetItem then [] else opTrees w (.attrSet n key gs))
  | op => c.sp.pre ++ callTree w op

/-! ## the configuration -/

/-- IR state of the instantiated journal model: the kernel world, the "argument register" through which a caller
    tells the callee what it is going to do (the instrumented calls it makes, whether it completes, what it
    returns), and what the last top-level instrumented call handed back to the user code -/
structure KState where
  w : KW
  reg : List L1 × Bool × Val := ([], true, .none)
  last : Outcome := .ret .none

/-- call `c` (an instrumented operation that makes the calls `c.kids`), then continue; the callee's
    outcome is not inspected (a rejected callee is always the last call of a rejected caller) -/
def callL1 (c : L1) (rest : Prog KState) : Prog KState :=
  .get fun st => .put { st with reg := (c.kids.map lift0, c.ok, c.ret) } (.call c.slot c.self .none fun _ => rest)

def callL1s : List L1 → Prog KState → Prog KState
  | [], rest => rest
  | c :: cs, rest => callL1 c (callL1s cs rest)

/-- a top-level call: what it hands back (through whatever wrappers are installed) is kept in `last` -/
def callL2 (c : L2) (rest : Prog KState) : Prog KState :=
  .get fun st => .put { st with reg := (c.kids, c.ok, c.ret) }
    (.call c.slot c.self .none fun o => .get fun st' => .put { st' with last := o } rest)

def callL2s : List L2 → Prog KState → Prog KState
  | [], rest => rest
  | c :: cs, rest => callL2 c (callL2s cs rest)

/-- the body of every original function: make the calls announced in the register, finish with the
    announced outcome -/
def kImpl : Nat → Obj → Val → Prog KState :=
  fun k _ _ => .get fun st => callL1s st.reg.1 (.done (outT k st.reg.2.1 st.reg.2.2))

def kCfg : Cfg KState := { impl := kImpl, owner := kOwner, details := fun _ _ _ s => some s }

def valOf : Outcome → Val
  | .ret v => v
  | .raise _ => .none

/-- what the journal model needs to know about one public call -/
structure GCall where
  /-- the instrumented calls it makes on kernel state `w`, in program order -/
  trees : KW → List L2
  /-- the kernel's transition and whether the call completes -/
  step : KW → KW × Bool
  /-- the public call IS its instrumented root call (`graph.inputs.pop()`, `graph.append(n)`, ...): what it
      returns is what that call handed back; otherwise it returns None -/
  direct : Bool

/-- user code of one public call: make the top-level instrumented calls, the kernel state becomes the kernel's,
    the outcome is the kernel's with the value that came back from the root call -/
def gProg (c : GCall) : Prog KState :=
  .get fun st => .put { st with last := .ret .none }
    (callL2s (c.trees st.w)
      (.get fun st' => .put { st' with w := (c.step st.w).1 }
        (.done (outOfV (c.step st.w).2 (if c.direct then valOf st'.last else .none)))))

/-- a history: every call inside its own `try` (a rejected call does not end the history) -/
def gBlock : List GCall → Block KState
  | [] => .skip
  | c :: rest => .seq (.attempt (.op (gProg c))) (gBlock rest)

/-- a history with `with journal:` blocks around any parts of it -/
inductive GBlk where
  | ops (l : List GCall)
  | seq (a b : GBlk)
  | withJ (j : Nat) (body : GBlk)

def GBlk.toBlock : GBlk → Block KState
  | .ops l => gBlock l
  | .seq a b => .seq a.toBlock b.toBlock
  | .withJ j body => .withJ j body.toBlock

def GBlk.allOps : GBlk → List GCall
  | .ops l => l
  | .seq a b => a.allOps ++ b.allOps
  | .withJ _ body => body.allOps

/-! ## what a history is expected to produce -/

def evs0 (c : L0) : List Ev := [.start c.slot c.self, .finish c.slot c.self (outT c.slot c.ok c.ret)]
def evs1 (c : L1) : List Ev :=
  [.start c.slot c.self] ++ c.kids.flatMap evs0 ++ [.finish c.slot c.self (outT c.slot c.ok c.ret)]
def evs2 (c : L2) : List Ev :=
  [.start c.slot c.self] ++ c.kids.flatMap evs1 ++ [.finish c.slot c.self (outT c.slot c.ok c.ret)]

/-- what the user code holds after the top-level calls `ts` (from `o`) -/
def lastOf : List L2 → Outcome → Outcome
  | [], o => o
  | c :: cs, _ => lastOf cs (outT c.slot c.ok c.ret)

/-- outcome of the public call `c` on kernel state `w` -/
def gOut (c : GCall) (w : KW) : Outcome :=
  outOfV (c.step w).2 (if c.direct then valOf (lastOf (c.trees w) (.ret .none)) else .none)

def gEvs (w : KW) : List GCall → List Ev
  | [] => []
  | c :: rest => (c.trees w).flatMap evs2 ++ gEvs (c.step w).1 rest

def gLog (w : KW) : List GCall → List Outcome
  | [] => []
  | c :: rest => gOut c w :: gLog (c.step w).1 rest

def gWorld (w : KW) (ops : List GCall) : KW := ops.foldl (fun w c => (c.step w).1) w

/-! ## the two instances: plain kernel calls, spelled kernel calls -/

/-- a public call that is itself the instrumented function (its result comes back through the wrappers) -/
def isDirect : Kernel.AnyOp → Bool
  | .one (.io _ _ m) => (ioSlot m).isSome
  | .one (.resizeInputs ..) => true
  | .one (.resizeOutputs ..) => true
  | .one (.rauw ..) => true
  | .one (.append ..) => true
  | .one (.extend ..) => true
  | .one (.insertAfter ..) => true
  | .one (.insertBefore ..) => true
  | .one (.remove ..) => true
  | .one (.sort _) => true
  | .one (.sortOk _) => true
  | .one (.sortCycle) => true
  | _ => false

def gOf (op : Kernel.AnyOp) : GCall :=
  { trees := fun w => callTree w op,
    step := fun w => ((Kernel.stepAny w op).1, okOf (Kernel.stepAny w op).2),
    direct := isDirect op }

def gOfX (c : KCall) : GCall :=
  { trees := fun w => callTreeX w c,
    step := fun w => ((Kernel.stepAny w c.op).1, okOf (Kernel.stepAny w c.op).2),
    direct := isDirect c.op }

/-- user code of one public call of the C01 alphabet -/
def opProg (op : Kernel.AnyOp) : Prog KState := gProg (gOf op)

def histBlock : List Kernel.AnyOp → Block KState
  | [] => .skip
  | op :: rest => .seq (.attempt (.op (opProg op))) (histBlock rest)

/-- a kernel history with `with journal:` blocks around any parts of it -/
inductive KBlk where
  | ops (l : List Kernel.AnyOp)
  | seq (a b : KBlk)
  | withJ (j : Nat) (body : KBlk)

def KBlk.toBlock : KBlk → Block KState
  | .ops l => histBlock l
  | .seq a b => .seq a.toBlock b.toBlock
  | .withJ j body => .withJ j body.toBlock

def KBlk.allOps : KBlk → List Kernel.AnyOp
  | .ops l => l
  | .seq a b => a.allOps ++ b.allOps
  | .withJ _ body => body.allOps

def KBlk.toG : KBlk → GBlk
  | .ops l => .ops (l.map gOf)
  | .seq a b => .seq a.toG b.toG
  | .withJ j body => .withJ j body.toG

/-- the original functions executed by a history from state `w` (start / finish events) -/
def histEvs (w : KW) (ops : List Kernel.AnyOp) : List Ev := gEvs w (ops.map gOf)

/-- the outcomes of the calls of a history from state `w`: the kernel's, with the value a direct call returns -/
def histLog (w : KW) (ops : List Kernel.AnyOp) : List Outcome := gLog w (ops.map gOf)

def histWorld (w : KW) (ops : List Kernel.AnyOp) : KW := ops.foldl (fun w o => (Kernel.stepAny w o).1) w

/-- a history of spelled calls with `with journal:` blocks around any parts of it -/
inductive KBlkX where
  | ops (l : List KCall)
  | seq (a b : KBlkX)
  | withJ (j : Nat) (body : KBlkX)

def KBlkX.toG : KBlkX → GBlk
  | .ops l => .ops (l.map gOfX)
  | .seq a b => .seq a.toG b.toG
  | .withJ j body => .withJ j body.toG

def KBlkX.toBlock (kb : KBlkX) : Block KState := kb.toG.toBlock

def KBlkX.allCalls : KBlkX → List KCall
  | .ops l => l
  | .seq a b => a.allCalls ++ b.allCalls
  | .withJ _ body => body.allCalls

/-- the kernel ops of a spelled history -/
def KBlkX.allOps (kb : KBlkX) : List Kernel.AnyOp := kb.allCalls.map (·.op)

def histEvsX (w : KW) (cs : List KCall) : List Ev := gEvs w (cs.map gOfX)
def histLogX (w : KW) (cs : List KCall) : List Outcome := gLog w (cs.map gOfX)

end IrVerif.Journal

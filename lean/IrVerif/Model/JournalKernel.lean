import IrVerif.Model.Kernel
import IrVerif.Model.Journal
/-!
# The journal model instantiated with the IR kernel (C20 round 3)

`Model/Journal.lean` leaves the instrumented operations abstract (`Cfg.impl`: any interaction tree).
Here they are the operations of the C01 kernel (`Model/Kernel.lean`, read only):

* `callTree w op` — the instrumented calls that the public call `op` makes on the kernel state `w`, in
  program order, nested as `_core.py` / `_graph_containers.py` / `_convenience` nest them (depth at
  most 3: e.g. `Graph.__init__` calls `Graph.extend` calls the `Node.graph` setter).  The numbers are
  indices into `Journal.slots`.  Compared with the call trees observed on the real code
  (`sys.monitoring`) for every generated kernel history (`journal.kernel`).
* `kCfg` — the `Cfg` whose original functions perform exactly these calls; `opProg op` is the user
  code of one kernel call: it makes the top-level instrumented calls of `callTree`, then the kernel
  state becomes `(Kernel.stepAny w op).1` and the outcome is the kernel's.  (The kernel updates its
  state atomically per public call; a wrapper cannot tell where inside the call the update happens:
  the only wrapper code that looks at the IR is a `details` expression, and those are pure — here by
  definition of `kCfg.details`, on the real code by the probing oracle of harness/c20.py.)
* objects: kernel ids are per class; `KObj.enc` packs class and id into one `Obj`.  The tracked
  containers (`graph.inputs`, `graph.outputs`, `graph.initializers`, `node.attributes`) are objects of
  their own; `kOwner` is their `_graph` / `_owner`.

Not instantiated: `Op.attrEdit` (attributes are not kernel state; tree empty), the receiver of
`Graph.sort` (the kernel op `sortOk orders` does not say on which graph `sort` was called: the root
of its tree carries the placeholder `sortSelf`), return values (the kernel has outcomes only: every
completed call returns None here), the spelling of a call through `Function` / `Node.append`.
-/
namespace IrVerif.Journal

abbrev KW := IrVerif.Kernel.World

inductive KObj where
  | val (i : Nat) | node (i : Nat) | graph (i : Nat) | inputs (g : Nat) | outputs (g : Nat)
  | inits (g : Nat) | attrs (n : Nat) | tensor (i : Nat)
  deriving DecidableEq, Repr

def KObj.enc : KObj → Obj
  | .val i => 8 * i
  | .node i => 8 * i + 1
  | .graph i => 8 * i + 2
  | .inputs g => 8 * g + 3
  | .outputs g => 8 * g + 4
  | .inits g => 8 * g + 5
  | .attrs n => 8 * n + 6
  | .tensor i => 8 * i + 7

/-- `_graph` of an input / output / initializer container, `_owner` of an attribute container -/
def kOwner (o : Obj) : Obj :=
  if o % 8 = 3 ∨ o % 8 = 4 ∨ o % 8 = 5 then 8 * (o / 8) + 2
  else if o % 8 = 6 then 8 * (o / 8) + 1 else o

/-- an instrumented call that makes no instrumented call -/
structure L0 where
  slot : Nat
  self : Obj
  ok : Bool := true
  deriving DecidableEq, Repr

structure L1 where
  slot : Nat
  self : Obj
  kids : List L0 := []
  ok : Bool := true
  deriving DecidableEq, Repr

structure L2 where
  slot : Nat
  self : Obj
  kids : List L1 := []
  ok : Bool := true
  deriving DecidableEq, Repr

def lift0 (c : L0) : L1 := { slot := c.slot, self := c.self, kids := [], ok := c.ok }
def lift1 (c : L1) : L2 := { slot := c.slot, self := c.self, kids := c.kids.map lift0, ok := c.ok }

def okOf : Kernel.Outcome → Bool
  | .ok => true
  | .raised _ => false

/-- exception code of a rejected kernel call (the kernel's `kind` string is information only) -/
def kernelExn : Nat := 3

def outOf (ok : Bool) : Outcome := if ok then .ret .none else .raise kernelExn

/-! ## call trees -/

/-- `_set_node_graph_to_self_and_assign_names` (_core.py 3819-3827): the name authority assigns
    `node.name` / `value.name` through the (patched) property setters when they are None, then
    `node.graph = self` -/
def attachKids (w : KW) (n : Nat) : List L0 :=
  (if (w.node n).name = none then [{ slot := 2, self := (KObj.node n).enc }] else []) ++
  (((w.node n).outputs.filter (fun o => decide ((w.val o).name = none))).map
    (fun o => ({ slot := 13, self := (KObj.val o).enc } : L0))) ++
  [{ slot := 11, self := (KObj.node n).enc }]

/-- `Graph.extend` after its checks: one attach per node (state as `Kernel.extendMut` threads it) -/
def extendKids (w : KW) (g : Nat) : List Nat → List L0
  | [] => []
  | n :: rest =>
    attachKids w n ++
      extendKids (Kernel.nodeLink (Kernel.assignNames w g n) g (w.gr g).nodes.getLast? n) g rest

/-- `Graph.insert_after` / `insert_before` after their checks (state as `Kernel.linkMany`) -/
def linkKids (w : KW) (g : Nat) (anchor : Option Nat) : List Nat → List L0
  | [] => []
  | n :: rest =>
    attachKids w n ++ linkKids (Kernel.nodeLink (Kernel.assignNames w g n) g anchor n) g (some n) rest

/-- `register_or_name_value` over a list of values: the `Value.name` setter for the unnamed ones -/
def nameKids (w : KW) (g : Nat) : List Nat → List L1
  | [] => []
  | v :: rest =>
    (if (w.val v).name = none then [{ slot := 13, self := (KObj.val v).enc }] else []) ++
      nameKids (Kernel.registerValue w g v) g rest

/-- `initializers[key] = v` (slot 40): an unnamed value is named after the key through the setter -/
def initSetTree (w : KW) (g : Nat) (key : String) (v : Nat) : L2 :=
  let ok := okOf (Kernel.initSetItem w g key v).2
  { slot := 40, self := (KObj.inits g).enc, ok := ok,
    kids := if ok && Kernel.falsy (w.val v).name then [{ slot := 13, self := (KObj.val v).enc }] else [] }

def initUpdateTrees (w : KW) (g : Nat) : List (String × Nat) → List L2
  | [] => []
  | (k, v) :: rest => initSetTree w g k v :: initUpdateTrees (Kernel.initSetItem w g k v).1 g rest

/-- `Value.replace_all_uses_with` (_core.py 3449-3500): a graph output is re-assigned through
    `graph.outputs[i] = replacement` (the patched `_GraphIO.__setitem__`), the uses through
    `replace_input_with` (not instrumented) -/
def rauwTree (w : KW) (v r : Nat) (rgo : Bool) : L2 :=
  let self := (KObj.val v).enc
  if (w.val v).isOut then
    match (w.val v).graph with
    | some g =>
      let c := (KObj.outputs g).enc
      if !rgo then { slot := 17, self := self, ok := false }
      else if !Kernel.checkIO w g .out r then
        { slot := 17, self := self, ok := false, kids := [{ slot := 39, self := c, ok := false }] }
      else { slot := 17, self := self,
             kids := ((w.gr g).outputs.filter (· = v)).map (fun _ => ({ slot := 39, self := c } : L1)) }
    | none => { slot := 17, self := self, ok := false }
  else { slot := 17, self := self }

/-- `Value.name = s` (_core.py 3294-3330): an initializer is re-keyed (`initializers.pop(old)`, which
    is `__delitem__`, then `initializers[new] = self`) -/
def setNameTree (w : KW) (v : Nat) (s : Option String) : L2 :=
  let ok := okOf (Kernel.setName w v s).2
  { slot := 13, self := (KObj.val v).enc, ok := ok,
    kids := if ok && decide ((w.val v).name ≠ s) && (w.val v).isInit then
        match (w.val v).graph with
        | some g => [{ slot := 41, self := (KObj.inits g).enc }, { slot := 40, self := (KObj.inits g).enc }]
        | none => []
      else [] }

/-- placeholder receiver of `Graph.sort` (see the file comment) -/
def sortSelf : Obj := 2

def sortKids (w : KW) : List (Nat × List Nat) → List L1
  | [] => []
  | p :: rest =>
    if p.2.isPerm (w.gr p.1).nodes && p.2.all (Kernel.nodeAcceptable w p.1) then
      { slot := 22, self := (KObj.graph p.1).enc, kids := extendKids w p.1 p.2 } ::
        sortKids (Kernel.extendMut w p.1 p.2) rest
    else sortKids w rest

def ioSelf (g : Nat) : Kernel.IOKind → Obj
  | .inp => (KObj.inputs g).enc
  | .out => (KObj.outputs g).enc

/-- which `_GraphIO` method a mutator of the tracked lists goes through (`none`: not instrumented:
    `del lst[i]`, `del lst[a:b]`, `reverse`, and `+=` / `*=` which are refused) -/
def ioSlot : Kernel.IOMut → Option Nat
  | .append _ => some 33
  | .extend _ => some 34
  | .insert _ _ => some 35
  | .pop _ => some 36
  | .remove _ => some 37
  | .clear => some 38
  | .setItem _ _ => some 39
  | .setSlice _ _ _ _ => some 39
  | _ => none

def initTrees (w : KW) (g : Nat) (m : Kernel.InitMut) : List L2 :=
  let c := (KObj.inits g).enc
  let ok := okOf (Kernel.initMut w g m).2
  match m with
  | .setItem key v => [initSetTree w g key v]
  | .delItem _ => [{ slot := 41, self := c, ok := ok }]
  | .add _ => [{ slot := 40, self := c, ok := ok }]
  -- `MutableMapping.pop`: `self[key]` raises KeyError before `del self[key]` is reached
  | .pop _ => if ok then [{ slot := 41, self := c }] else []
  | .popitem => if ok then [{ slot := 41, self := c }] else []
  -- `MutableMapping.clear`: `popitem` until KeyError
  | .clear => (w.gr g).inits.map (fun _ => ({ slot := 41, self := c } : L2))
  -- `update`: every entry is checked first; then one `__setitem__` per entry
  | .update kvs => if ok then initUpdateTrees w g kvs else []
  -- `MutableMapping.setdefault`: only an absent key is assigned
  | .setdefault key v =>
    if (Kernel.lookupInit (w.gr g).inits key).isSome then [] else [initSetTree w g key v]
  -- `Graph.register_initializer` (_core.py 3741-3770): its own checks, then `initializers.add(value)`
  | .register v =>
    let nm := (w.val v).name
    let key := nm.getD ""
    let ownBad := nm.isNone || key = "" || (match Kernel.lookupInit (w.gr g).inits key with
        | some old => decide (old ≠ v)
        | none => false) || decide ((w.val v).const = none)
    if ownBad then [{ slot := 20, self := (KObj.graph g).enc, ok := false }]
    else [{ slot := 20, self := (KObj.graph g).enc, ok := ok, kids := [{ slot := 40, self := c, ok := ok }] }]

/-- the instrumented calls of a single kernel call, in program order -/
def opTrees (w : KW) (op : Kernel.Op) : List L2 :=
  let ok := okOf (Kernel.step w op).2
  match op with
  | .newValue _ => [{ slot := 12, self := (KObj.val w.vals.length).enc }]
  -- the harness creates the tensor (`TensorBase.__init__`), then `value.const_value = tensor`
  | .setConst v _ =>
    [{ slot := 0, self := (KObj.tensor w.tensors.length).enc }, { slot := 16, self := (KObj.val v).enc }]
  -- `Node.__init__` (_core.py 2166-2250): `_create_outputs` builds the missing outputs (`Value(...)`),
  -- `graph.append(self)` when `graph=` is given; rejected before any of that
  | .newNode opType name inputs numOutputs outputs graph =>
    let n := w.nodes.length
    if !ok then [{ slot := 1, self := (KObj.node n).enc, ok := false }]
    else
      let created : List L1 := match outputs with
        | some _ => []
        | none => (List.range (numOutputs.getD 1).toNat).map
            (fun i => ({ slot := 12, self := (KObj.val (w.vals.length + i)).enc } : L1))
      let w1 := Kernel.newNodeMut w opType name inputs numOutputs outputs
      [{ slot := 1, self := (KObj.node n).enc,
         kids := created ++ match graph with
           | none => []
           | some g => [{ slot := 21, self := (KObj.graph g).enc, kids := attachKids w1 n }] }]
  -- `Graph.__init__` (_core.py 3664-3713)
  | .newGraph inputs outputs nodes inits =>
    let g := w.graphs.length
    if !ok then [{ slot := 19, self := (KObj.graph g).enc, ok := false }]
    else
      let w0 := w.setGr g {}
      let w1 := Kernel.ioInsertMany w0 g .inp 0 inputs
      let w2 := Kernel.ioInsertMany w1 g .out 0 outputs
      let d := Kernel.initDict w inits
      let w3 := d.foldl (fun w p => Kernel.initPut w g p.1 p.2) w2
      let w4 := inputs.foldl (fun w v => Kernel.registerValue w g v) w3
      let w5 := d.foldl (fun w p => Kernel.registerValue w g p.2) w4
      [{ slot := 19, self := (KObj.graph g).enc,
         kids := [{ slot := 34, self := (KObj.inputs g).enc }, { slot := 34, self := (KObj.outputs g).enc }] ++
           d.map (fun _ => ({ slot := 40, self := (KObj.inits g).enc } : L1)) ++
           nameKids w3 g inputs ++
           [{ slot := 22, self := (KObj.graph g).enc, kids := extendKids w5 g nodes }] }]
  | .replaceInput _ _ _ => []
  | .resizeInputs n _ => [{ slot := 7, self := (KObj.node n).enc, ok := ok }]
  | .resizeOutputs n k =>
    let cur := (w.node n).outputs.length
    let newSize : Nat := if k < 0 then ((cur : Int) + k).toNat else k.toNat
    [{ slot := 10, self := (KObj.node n).enc, ok := ok,
       kids := if ok then (List.range (newSize - cur)).map
         (fun i => ({ slot := 12, self := (KObj.val (w.vals.length + i)).enc } : L1)) else [] }]
  | .rauw v r rgo => [rauwTree w v r rgo]
  | .io g k m =>
    match ioSlot m with
    | some s => [{ slot := s, self := ioSelf g k, ok := ok }]
    | none => []
  | .init g m => initTrees w g m
  | .setName v s => [setNameTree w v s]
  | .append g n =>
    [{ slot := 21, self := (KObj.graph g).enc, ok := ok,
       kids := if ok then (attachKids w n).map lift0 else [] }]
  | .extend g ns =>
    [{ slot := 22, self := (KObj.graph g).enc, ok := ok,
       kids := if ok then (extendKids w g ns).map lift0 else [] }]
  | .insertAfter g a ns =>
    [{ slot := 24, self := (KObj.graph g).enc, ok := ok,
       kids := if ok then (linkKids w g (some a) ns).map lift0 else [] }]
  | .insertBefore g a ns =>
    [{ slot := 25, self := (KObj.graph g).enc, ok := ok,
       kids := if ok then (linkKids w g (Kernel.predOf (w.gr g).nodes a) ns).map lift0 else [] }]
  -- `Graph.remove` (_core.py 3983-4021): `node.graph = None` per node of the (frozen)set
  | .remove g ns _ =>
    [{ slot := 23, self := (KObj.graph g).enc, ok := ok,
       kids := if ok then (Kernel.dedup ns).map (fun n => ({ slot := 11, self := (KObj.node n).enc } : L1))
               else [] }]
  -- `Graph.sort` (_core.py 4073-4140): `graph.extend(sorted_nodes)` per involved graph
  | .sortOk orders => [{ slot := 26, self := sortSelf, ok := ok, kids := if ok then sortKids w orders else [] }]
  | .sortCycle => [{ slot := 26, self := sortSelf, ok := false }]
  | .attrEdit => []
  -- operations added to the kernel alphabet after this instantiation (round 3 of C01): not instantiated (tree empty)
  | _ => []

/-- `convenience.replace_all_uses_with`: one `Value.replace_all_uses_with` per pair, up to and
    including the first rejected one -/
def rauwSeqTrees (w : KW) (rgo : Bool) : List (Nat × Nat) → List L2
  | [] => []
  | (v, r) :: rest =>
    let res := Kernel.rauw w v r rgo
    if okOf res.2 then rauwTree w v r rgo :: rauwSeqTrees res.1 rgo rest else [rauwTree w v r rgo]

def rauwManyTrees (w : KW) (vs rs : List Nat) (rgo : Bool) : List L2 :=
  if vs.length ≠ rs.length then [] else rauwSeqTrees w rgo (vs.zip rs)

/-- the graphs of the renamed initializers, in order of first occurrence (a `dict` keyed by graph) -/
def groupGraphs (w : KW) (ips : List (Nat × String)) : List Nat :=
  Kernel.dedup (ips.filterMap (fun p => (w.val p.1).graph))

/-- `convenience.rename_values` after its validation (_convenience/__init__.py 459-470): per graph
    `initializers.pop(old)` for the renamed initializers, `value.name = name` for every pair, per
    graph `initializers.add(value)` -/
def renameTrees (w : KW) (vs : List Nat) (names : List String) : List L2 :=
  if !okOf (Kernel.renameValues w vs names).2 then [] else
  match Kernel.dedupPairs [] (vs.zip names) with
  | none => []
  | some pairs =>
    let ips := pairs.filter (fun p => (w.val p.1).isInit)
    let grouped := (groupGraphs w ips).flatMap (fun g =>
      (ips.filter (fun p => decide ((w.val p.1).graph = some g))).map (fun _ => g))
    grouped.map (fun g => ({ slot := 41, self := (KObj.inits g).enc } : L2)) ++
    pairs.map (fun p => ({ slot := 13, self := (KObj.val p.1).enc } : L2)) ++
    grouped.map (fun g => ({ slot := 40, self := (KObj.inits g).enc } : L2))

/-- the copying loop of `replace_nodes_and_values` (_convenience/__init__.py 533-545): four property
    assignments per pair; the last one (`name`) may be refused -/
def copyInfoTrees (w : KW) : List (Nat × Nat) → List L2
  | [] => []
  | (o, n) :: rest =>
    let w1 := match (w.val o).const with
      | some t => w.setVal n { w.val n with const := some t }
      | none => w
    let nameTree : L2 := match (w1.val o).name with
      | some s => setNameTree w1 n (some s)
      | none => { slot := 13, self := (KObj.val n).enc }
    let r := match (w1.val o).name with
      | some s => Kernel.setName w1 n (some s)
      | none => (w1, .ok)
    [{ slot := 14, self := (KObj.val n).enc }, { slot := 15, self := (KObj.val n).enc },
     { slot := 16, self := (KObj.val n).enc }, nameTree] ++
      (if okOf r.2 then copyInfoTrees r.1 rest else [])

def replaceTrees (w : KW) (g ip : Nat) (oldNodes newNodes oldVals newVals : List Nat) : List L2 :=
  let r1 := Kernel.copyInfo w (oldVals.zip newVals)
  copyInfoTrees w (oldVals.zip newVals) ++
  (if !okOf r1.2 then [] else
    let r2 := Kernel.rauwMany r1.1 oldVals newVals true
    rauwManyTrees r1.1 oldVals newVals true ++
    (if !okOf r2.2 then [] else
      let r3 := Kernel.graphInsertAfter r2.1 g ip newNodes
      opTrees r2.1 (.insertAfter g ip newNodes) ++
      (if !okOf r3.2 then [] else opTrees r3.1 (.remove g oldNodes true))))

def convTrees (w : KW) : Kernel.ConvOp → List L2
  | .rauwMany vs rs rgo => rauwManyTrees w vs rs rgo
  | .renameValues vs names => renameTrees w vs names
  | .replaceNodesAndValues g ip oldNodes newNodes oldVals newVals =>
    replaceTrees w g ip oldNodes newNodes oldVals newVals
  -- composite calls added to the kernel alphabet after this instantiation (round 3 of C01): not instantiated
  | _ => []

/-- the instrumented calls of one public call of the C01 alphabet on state `w` -/
def callTree (w : KW) : Kernel.AnyOp → List L2
  | .one op => opTrees w op
  | .conv op => convTrees w op

/-! ## the configuration -/

/-- IR state of the instantiated journal model: the kernel world and the "argument register" through
    which a caller tells the callee what it is going to do (the instrumented calls it makes and
    whether it completes) -/
structure KState where
  w : KW
  reg : List L1 × Bool := ([], true)

/-- call `c` (an instrumented operation that makes the calls `c.kids`), then continue; the callee's
    outcome is not inspected (a rejected callee is always the last call of a rejected caller) -/
def callL1 (c : L1) (rest : Prog KState) : Prog KState :=
  .get fun st => .put { st with reg := (c.kids.map lift0, c.ok) } (.call c.slot c.self .none fun _ => rest)

def callL1s : List L1 → Prog KState → Prog KState
  | [], rest => rest
  | c :: cs, rest => callL1 c (callL1s cs rest)

def callL2 (c : L2) (rest : Prog KState) : Prog KState :=
  .get fun st => .put { st with reg := (c.kids, c.ok) } (.call c.slot c.self .none fun _ => rest)

def callL2s : List L2 → Prog KState → Prog KState
  | [], rest => rest
  | c :: cs, rest => callL2 c (callL2s cs rest)

/-- the body of every original function: make the calls announced in the register, finish with the
    announced outcome -/
def kImpl : Nat → Obj → Val → Prog KState :=
  fun _ _ _ => .get fun st => callL1s st.reg.1 (.done (outOf st.reg.2))

def kCfg : Cfg KState := { impl := kImpl, owner := kOwner, details := fun _ _ _ s => some s }

/-- user code of one public call of the C01 alphabet -/
def opProg (op : Kernel.AnyOp) : Prog KState :=
  .get fun st =>
    callL2s (callTree st.w op)
      (.get fun st' => .put { st' with w := (Kernel.stepAny st.w op).1 }
        (.done (outOf (okOf (Kernel.stepAny st.w op).2))))

/-- a history: every call inside its own `try` (a rejected call does not end the history) -/
def histBlock : List Kernel.AnyOp → Block KState
  | [] => .skip
  | op :: rest => .seq (.attempt (.op (opProg op))) (histBlock rest)

/-- a kernel history with `with journal:` blocks around any parts of it -/
inductive KBlk where
  | ops (l : List Kernel.AnyOp)
  | seq (a b : KBlk)
  | withJ (j : Nat) (body : KBlk)

def KBlk.toBlock : KBlk → Block KState
  | .ops l => histBlock l
  | .seq a b => .seq a.toBlock b.toBlock
  | .withJ j body => .withJ j body.toBlock

def KBlk.allOps : KBlk → List Kernel.AnyOp
  | .ops l => l
  | .seq a b => a.allOps ++ b.allOps
  | .withJ _ body => body.allOps

/-! ## what a history is expected to produce -/

def evs0 (c : L0) : List Ev := [.start c.slot c.self, .finish c.slot c.self (outOf c.ok)]
def evs1 (c : L1) : List Ev :=
  [.start c.slot c.self] ++ c.kids.flatMap evs0 ++ [.finish c.slot c.self (outOf c.ok)]
def evs2 (c : L2) : List Ev :=
  [.start c.slot c.self] ++ c.kids.flatMap evs1 ++ [.finish c.slot c.self (outOf c.ok)]

/-- the original functions executed by a history from state `w` (start / finish events) -/
def histEvs (w : KW) : List Kernel.AnyOp → List Ev
  | [] => []
  | op :: rest => (callTree w op).flatMap evs2 ++ histEvs (Kernel.stepAny w op).1 rest

/-- the outcomes of the calls of a history from state `w` -/
def histLog (w : KW) : List Kernel.AnyOp → List Outcome
  | [] => []
  | op :: rest => outOf (okOf (Kernel.stepAny w op).2) :: histLog (Kernel.stepAny w op).1 rest

def histWorld (w : KW) (ops : List Kernel.AnyOp) : KW := ops.foldl (fun w o => (Kernel.stepAny w o).1) w

end IrVerif.Journal

import IrVerif.Model.Kernel
/-!
# Model/PassKernel.lean - two built-in passes as programs over C01's kernel (property C14, second deepening)

`RemoveUnusedNodesPass` (without the schema driven `_remove_unused_optional_outputs`, which needs an opset import
for the default domain) and `IdentityEliminationPass` written as what they are at the level of the IR data
structure: a sequence of calls of the public mutators that C01's kernel models (`Graph.remove(safe=True)`,
`Node.resize_inputs`, `del graph.initializers[name]`, `convenience.replace_all_uses_with`, `Value.name = ...`),
each decided by reading the current world (uses, ownership flags, node sequences, attribute graphs).  The world is
C01's `Kernel.World` (imported read-only): use-def links, producers, ownership flags and counters, initializer
dictionaries, node sequences, names and the name authority - what C14's "use-def and ownership links stay
consistent, names are kept" is about.  Shapes, types and metadata are not part of it.  Core Lean only.
-/
namespace IrVerif.PassKernel
open IrVerif.Kernel

/-- a pass under way: the world, whether a call raised (the exception leaves the pass: nothing more happens),
    and the calls issued so far (newest first) -/
structure KSt where
  w : World
  raised : Bool := false
  trace : List AnyOp := []

/-- one call of a public mutator -/
def KSt.call (s : KSt) (op : AnyOp) : KSt :=
  if s.raised then s
  else
    { w := (stepAny s.w op).1,
      raised := (match (stepAny s.w op).2 with | .ok => false | .raised _ => true),
      trace := op :: s.trace }

/-- an `assert` of the pass fails -/
def KSt.fail (s : KSt) : KSt := { s with raised := true }

/-! ## RemoveUnusedNodesPass (unused_removal.py 77-151) -/

/-- `_remove_trailing_empty_inputs`: the number of inputs left when the trailing `None`s are dropped -/
def trimmedLen (l : List (Option Nat)) : Nat := (l.reverse.dropWhile Option.isNone).length

/-- lines 92-97: no output of the node is a graph output (of THIS graph: `frozenset(graph.outputs)`) or has uses -/
def dceRemovable (w : World) (gouts : List Nat) (n : Nat) : Bool :=
  (w.node n).outputs.all (fun o => !gouts.contains o && (w.val o).uses.isEmpty)

/-- `_remove_unused_nodes_in_graph_like` without the schema driven part; `reversed(graph)` is a snapshot walk (the
    only node of this sequence removed during the walk is the current one).  `fuel` bounds the nesting depth. -/
def dceGraphK : Nat → KSt → Nat → KSt
  | 0, s, _ => s
  | fuel + 1, s, g =>
    (s.w.gr g).nodes.reverse.foldl (fun s n =>
      if s.raised then s
      else if dceRemovable s.w (s.w.gr g).outputs n then s.call (.one (.remove g [n] true))
      else
        let s1 :=
          if trimmedLen (s.w.node n).inputs = (s.w.node n).inputs.length then s
          else s.call (.one (.resizeInputs n (Int.ofNat (trimmedLen (s.w.node n).inputs))))
        (s1.w.node n).attrs.foldl (fun s a => a.2.foldl (fun s sub => dceGraphK fuel s sub) s) s1) s

/-- `RemoveUnusedNodesPass.call`: the main graph, its unused initializers (`del initializers[init.name]`; the
    `assert init.name is not None` cannot fail for a dictionary entry of a well-formed world), the functions -/
def dceModelK (fuel : Nat) (w : World) (g : Nat) (funcs : List Nat) : KSt :=
  let s1 := dceGraphK fuel ⟨w, false, []⟩ g
  let s2 := (s1.w.gr g).inits.foldl (fun s p =>
    if s.raised then s
    else if (s.w.val p.2).uses.isEmpty && !(s1.w.gr g).outputs.contains p.2 && !(s1.w.gr g).inputs.contains p.2 then
      match (s.w.val p.2).name with
      | some nm => s.call (.one (.init g (.delItem nm)))
      | none => s.fail
    else s) s1
  funcs.foldl (fun s f => dceGraphK fuel s f) s2

/-! ## IdentityEliminationPass (identity_elimination.py 56-132) -/

/-- `Value.graph` (_core.py 3224-3236): the owning graph, else the graph of the producer -/
def valGraph (w : World) (v : Nat) : Option Nat :=
  match (w.val v).graph with
  | some g => some g
  | none =>
    match (w.val v).producer with
    | some n => (w.node n).graph
    | none => none

/-- `_try_eliminate_identity_node` (the domain of every node of the kernel world is "") -/
def ieNodeK (exact : Bool) (s : KSt) (n : Nat) : KSt :=
  if s.raised then s
  else if (s.w.node n).opType != "Identity" then s
  else
    match (s.w.node n).inputs, (s.w.node n).outputs with
    | [some x], [y] =>
      match (s.w.node n).graph with
      | none => s.fail
      | some g =>
        if (s.w.val y).isOut && ((s.w.val x).isIn || (s.w.val x).isInit) then s
        else if (s.w.val y).isOut && valGraph s.w x != some g then s
        else if (s.w.val y).isOut && (s.w.val x).isOut then s
        else
          let s1 := s.call (.conv (if exact then .rauwManyExact [y] [x] true else .rauwMany [y] [x] true))
          let s2 := if (s.w.val y).isOut then s1.call (.one (.setName x (s1.w.val y).name)) else s1
          s2.call (.one (.remove g [n] true))
    | _, _ => s

/-- `RecursiveGraphIterator(graph)`: a node, then the graphs its attributes hold (read when the iterator resumes,
    i.e. after the node was processed), then the next node -/
def ieGraphK (exact : Bool) : Nat → KSt → Nat → KSt
  | 0, s, _ => s
  | fuel + 1, s, g =>
    (s.w.gr g).nodes.foldl (fun s n =>
      (((ieNodeK exact s n).w.node n).attrs.foldl
        (fun s a => a.2.foldl (fun s sub => ieGraphK exact fuel s sub) s) (ieNodeK exact s n))) s

/-- `IdentityEliminationPass.call`: the main graph, then every function -/
def ieModelK (exact : Bool) (fuel : Nat) (w : World) (g : Nat) (funcs : List Nat) : KSt :=
  funcs.foldl (fun s f => ieGraphK exact fuel s f) (ieGraphK exact fuel ⟨w, false, []⟩ g)

/-! ## RemoveInitializersFromInputsPass / AddInitializersToInputsPass (constant_manipulation.py 216-259): main graph -/

/-- `graph.inputs.clear(); graph.inputs.extend(new_inputs)` with `new_inputs` = the inputs that are not initializer
    values of this graph -/
def rmInitInputsK (w : World) (g : Nat) : KSt :=
  let keep := (w.gr g).inputs.filter (fun v => !((w.gr g).inits.map Prod.snd).contains v)
  ((KSt.mk w false []).call (.one (.io g .inp .clear))).call (.one (.io g .inp (.extend keep)))

/-- `graph.inputs.append(initializer)` for every initializer that is not in `set(graph.inputs)` (taken at the start) -/
def addInitInputsK (w : World) (g : Nat) : KSt :=
  ((w.gr g).inits.map Prod.snd).foldl (fun s v =>
    if (w.gr g).inputs.contains v then s else s.call (.one (.io g .inp (.append v)))) ⟨w, false, []⟩

/-! ## OutputFixPass (output_fix.py 51-141): a pass that CREATES nodes and values -/

/-- `f"{value.name}"` -/
def nameStr : Option String → String
  | some s => s
  | none => "None"

/-- `graph_like.subgraphs()` (_core.py 3900-3921): the graphs held by attributes, in `RecursiveGraphIterator` order,
    first occurrence (a graph that was seen already contributes nothing new) -/
def subgraphsK : Nat → World → Nat → List Nat → List Nat
  | 0, _, _, acc => acc
  | fuel + 1, w, g, acc =>
    (w.gr g).nodes.foldl (fun acc n =>
      (w.node n).attrs.foldl (fun acc a =>
        a.2.foldl (fun acc sub => if acc.contains sub then acc else subgraphsK fuel w sub (acc ++ [sub])) acc) acc) acc

/-- `(graph_like, *graph_like.subgraphs())` -/
def graphAndSubs (fuel : Nat) (w : World) (g : Nat) : List Nat := g :: (subgraphsK fuel w g []).filter (· != g)

/-- the new Identity node and its output: `ir.node("Identity", inputs=[output])` allocates the next node id and the
    next value id -/
def newIdentity (s : KSt) (o : Nat) : KSt := s.call (.one (.newNode "Identity" none [some o] none none none))

/-- `_alias_multi_used_outputs` for one graph: the second and later occurrences of a value in the output list are
    replaced by the output of a new Identity node appended to the graph (named `f"{output.name}_alias_{i}"`) -/
def ofixMultiK (s : KSt) (g : Nat) : KSt :=
  ((enumFrom 0 (s.w.gr g).outputs).foldl (fun (p : KSt × List Nat) (io : Nat × Nat) =>
    if p.1.raised then p
    else if !p.2.contains io.2 then (p.1, io.2 :: p.2)
    else
      let n := p.1.w.nodes.length
      let v := p.1.w.vals.length
      let s1 := newIdentity p.1 io.2
      let s2 := s1.call (.one (.setName v (some (nameStr (s1.w.val io.2).name ++ "_alias_" ++ toString io.1))))
      let s3 := s2.call (.one (.append g n))
      (s3.call (.one (.io g .out (.setItem (Int.ofNat io.1) v))), p.2)) (s, [])).1

/-- `_alias_direct_outputs` for one graph: an output that is a graph input (of any graph) is replaced by the output
    of a new Identity node that takes over its name; the input is renamed `f"{name}_orig"` -/
def ofixDirectK (s : KSt) (g : Nat) : KSt :=
  ((enumFrom 0 (s.w.gr g).outputs).filter (fun io => (s.w.val io.2).isIn)).foldl (fun s io =>
    if s.raised then s
    else
      let n := s.w.nodes.length
      let v := s.w.vals.length
      let s1 := newIdentity s io.2
      let s2 := s1.call (.one (.setName v (s1.w.val io.2).name))
      let s3 := s2.call (.one (.setName io.2 (some (nameStr (s2.w.val io.2).name ++ "_orig"))))
      let s4 := s3.call (.one (.append g n))
      s4.call (.one (.io g .out (.setItem (Int.ofNat io.1) v)))) s

/-- one graph-like: `_alias_multi_used_outputs` over it and its subgraphs, then `_alias_direct_outputs` -/
def ofixGraphLikeK (fuel : Nat) (s : KSt) (g : Nat) : KSt :=
  let s1 := (graphAndSubs fuel s.w g).foldl ofixMultiK s
  (graphAndSubs fuel s1.w g).foldl ofixDirectK s1

/-- `OutputFixPass.call`: the main graph, then every function -/
def ofixModelK (fuel : Nat) (w : World) (g : Nat) (funcs : List Nat) : KSt :=
  funcs.foldl (ofixGraphLikeK fuel) (ofixGraphLikeK fuel ⟨w, false, []⟩ g)

/-- replaying a list of calls -/
def replay (w : World) (ops : List AnyOp) : World := ops.foldl (fun w o => (stepAny w o).1) w

end IrVerif.PassKernel

/-
The IR version < 10 format of the value info of function values in the EXTENDED model
(`IrVerif.Model.ScopeExt` + `IrVerif.Model.ScopeFunc9`): type / shape / doc_string tokens AND metadata_props.

Python anchors (onnx/ir-py, `src/onnx_ir/serde.py`):
* `deserialize_model`                                             647-651  (the post-pass, when `ir_version < 10`;
  it runs AFTER the main graph and every function were deserialized in the IR >= 10 way: a `FunctionProto.value_info`
  that a proto below IR 10 carries nevertheless is read by `deserialize_function` first)
* `_deserialized_experimental_value_info_for_function_ir9`        700-746  (`mapping[fid][value_name] = proto`: ONE
  entry per value name, the last one; `deserialize_value_info_proto(entry, value)` 1009-1030: type / shape /
  doc_string are OVERWRITTEN, `value.metadata_props.update(...)` MERGES the entry's metadata into what the value
  already has; inputs first, then the outputs of the function's own nodes)
* `serialize_model_into`                                          1592-1613 (`create_value_info=False`; experimental
  entries appended to the main graph's value_info function by function; `main_graph_value_names`)
* `_serialize_experimental_value_info_for_function_ir9_into`      1753-1822 (`_should_create_value_info_for_value`
  1733-1750 looks at the metadata too; `serialize_value_into(..., name=...)` 2381-2407 writes the metadata sorted by key)

As it is: the experimental entries carry NO quantization annotation (function values never have one: `{}` 972-976,
and `_serialize_experimental...` writes none).  The main graph's deserialization reads EVERY value_info entry by
name, experimental or not: a main-graph value named `d::f/v` (initializer value, node output, placeholder) gets the
info AND the metadata of the entry (that is `deserGraphE`; the reserved names of the D320 repair prevent writing
such an entry, not reading it).
Core Lean only.
-/
import IrVerif.Model.ScopeExt
import IrVerif.Model.ScopeFunc9
namespace IrVerif.Scope

/-! ## deserialization: the post-pass -/

/-- `function_value_value_info_mapping[fid]` with the metadata, oldest entry first -/
def expEntriesForE (fids : List FId) (vi : List VInfoE) (fid : FId) : List (Name × Info × SS) :=
  vi.filterMap fun e =>
    match parseExp e.name with
    | none => none
    | some (d, f, v) =>
      if (⟨d, f, ""⟩ : FId) = fid && fids.contains ⟨d, f, ""⟩ then some (v, e.info, e.mprops) else none

/-- `if value.name in mapping: deserialize_value_info_proto(mapping[value.name], value)` for a list of values:
    the info is overwritten, the metadata merged -/
def applyInfosE (st : Store) (x : Ext) (tbl : List (Name × Info × SS)) : List Nat → Store × Ext
  | [] => (st, x)
  | v :: vs =>
    match (st.vals v).name with
    | none => applyInfosE st x tbl vs
    | some n =>
      match tbl.lookup n with
      | some e => applyInfosE (st.modify v fun c => { c with info := e.1 }) (x.merge v e.2) tbl vs
      | none => applyInfosE st x tbl vs

/-- 733-745 for one function: its inputs, then the outputs of its own nodes -/
def applyExpFuncE (vi : List VInfoE) (fids : List FId) (sx : Store × Ext) (f : FId × GraphT) : Store × Ext :=
  let tbl := (expEntriesForE fids vi f.1).reverse
  match f.2 with
  | .mk _ ins _ nodes _ =>
    let r := applyInfosE sx.1 sx.2 tbl ins
    applyInfosE r.1 r.2 tbl (nodes.flatMap NodeT.outputs)

def GraphE.vinfo : GraphE → List VInfoE
  | .mk _ _ vi _ _ _ => vi

/-- `deserialize_model` for `ir_version < 10` -/
def deserializeME9 (p : ModelE) : Except Err MWorldE :=
  match deserializeME p with
  | .error e => .error e
  | .ok m =>
    let r := m.funcs.foldl (applyExpFuncE p.graph.vinfo (m.funcs.map (·.1))) (m.st, m.ext)
    .ok { m with st := r.1, ext := r.2 }

/-! ## serialization -/

def expVInfoE (vals : Nat → ValueS) (x : Ext) (reserved : List Name) (id : FId) : List Nat → List VInfoE
  | [] => []
  | v :: vs =>
    let c := vals v
    if nameTruthy c.name && shouldCreateE c (x.vmeta v) && canParseBack reserved id (c.name.getD "") then
      ⟨formatExp id.domain id.name (c.name.getD ""), c.info.emit, ssSorted (x.vmeta v)⟩ :: expVInfoE vals x reserved id vs
    else expVInfoE vals x reserved id vs

/-- `_serialize_experimental_value_info_for_function_ir9_into` -/
def expOfFuncE (vals : Nat → ValueS) (x : Ext) (reserved : List Name) (f : FId × GraphT) : List VInfoE :=
  if f.1.overload != "" then []
  else match f.2 with
    | .mk _ ins _ nodes _ =>
      expVInfoE vals x reserved f.1 ins ++ expVInfoE vals x reserved f.1 (nodes.flatMap NodeT.outputs)

def addVInfoE (extra : List VInfoE) : GraphE → GraphE
  | .mk i t vi n o q => .mk i t (vi ++ extra) n o q

/-- `serialize_model` for `ir_version < 10` (the code as it is: D320 repaired): the functions are written without
    value_info (`create_value_info=False`; same error points as with it), the experimental entries - with the
    metadata, without annotations - are appended to the main graph's value_info -/
def serializeME9 (ver : Option Int) (w : MWorldE) : Except EErr (MWorldE × ModelE) :=
  match serializeME ver w with
  | .error e => .error e
  | .ok (w1, q) =>
    .ok (w1, ⟨addVInfoE (w.funcs.flatMap (expOfFuncE w.st.vals w.ext (reservedNames w.st.vals w.root))) q.graph,
      q.funcs.map fun f => { f with vinfo := [] }⟩)

end IrVerif.Scope

import IrVerif.Model.Serde
import IrVerif.Model.Scope
/-!
Definitions of the C02 bridge (`IrVerif/Lemmas/ScopeSerdeBridge*.lean` prove the theorems): the abstraction of C02's
protos (`absG`) and IR (`absIR`) to the Scope model, the decidable fragments `shared` / `sharedS` and the decidable
side condition `GOK`.  Core Lean only: linked into `irdriver` (ops `bridge.*`).
-/
namespace IrVerif.Bridge
open IrVerif.Proto IrVerif.Serde

/-- `deserialize_type_proto_for_type` without the error paths (= `Serde.tyOf` of the lemma files) -/
def tyOfB (t : TypeP) : Option IRType :=
  match desTypeForType t with
  | .ok x => x
  | .error _ => none

/-- `deserialize_type_proto_for_shape` without the error paths (= `Serde.shOf`) -/
def shOfB (t : TypeP) : Option IRShape :=
  match desTypeForShape t with
  | .ok x => x
  | .error _ => none

/-- `deserialize_tensor` without the error paths (= `Serde.irT`) -/
def irTB (p : TensorP) : IRTensor :=
  match desTensor p with
  | .ok t => t
  | .error _ => default

/-! ## tokens -/

def tyTok (t : IRType) : String := reprStr t
def shTok (s : IRShape) : String := reprStr s
def docTok (d : String) : Option String := if d = "" then none else some d

/-- payload token of a tensor: everything but its name -/
def tensTok (t : IRTensor) : String := reprStr (t.setName "")

def dtypeOf (t : IRTensor) : Int :=
  match t.dtype with
  | .ok d => d
  | .error _ => 0

def dimsTok (ds : List Int) : String := shTok (ds.map fun d => (IRDim.int d, ""))

/-! ## proto abstraction -/

def absInfo (vi : ValueInfoP) : Scope.Info :=
  { ty := (tyOfB vi.type).map tyTok, sh := (shOfB vi.type).map shTok, doc := docTok vi.doc }

def absVI (vi : ValueInfoP) : Scope.VInfoP := ⟨vi.name, absInfo vi⟩

def absT (p : TensorP) : Scope.TensorP :=
  ⟨p.name, tensTok (irTB p), tyTok (.tensor p.dataType ""), dimsTok p.dims⟩

def hasGraphAttr : AttrP → Bool
  | .graph .. | .graphs .. => true
  | _ => false

/-- a node without GRAPH / GRAPHS attributes -/
def absN (n : NodeP) : Scope.NodeP := .mk n.inputs n.outputs []

def absG (g : GraphP) : Scope.GraphP :=
  .mk (g.inputs.map absVI) (g.initializers.map absT) (g.valueInfo.map absVI) (g.nodes.map absN)
    (g.outputs.map absVI)

/-- no node of the graph has a GRAPH / GRAPHS attribute -/
def noSubgraphs (g : GraphP) : Bool := g.nodes.all fun n => n.attrs.all fun a => !hasGraphAttr a

/-- the shared fragment (decidable) -/
def shared (g : GraphP) : Bool := wfGraph [] g && noSubgraphs g

/-! ## IR abstraction -/

structure Cell where
  name : Option String
  info : Scope.Info
  tensor : Option Scope.TensorS
deriving DecidableEq, Repr, Inhabited

/-- the Scope world without the derived links -/
structure Core where
  cells : List Cell
  root : Scope.GraphT

def absInfoV (v : IRValue) : Scope.Info :=
  { ty := v.type.map tyTok, sh := v.shape.map shTok, doc := docTok v.doc }

def absTens (t : IRTensor) : Scope.TensorS :=
  ⟨some t.name, tensTok t, tyTok (.tensor (dtypeOf t) ""), dimsTok t.shape⟩

def absCell (v : IRValue) : Cell := ⟨some v.name, absInfoV v, v.const.map absTens⟩

def blankCell : Cell := ⟨some "", {}, none⟩

def cellAt (st : Scope.Store) (i : Nat) : Cell :=
  ⟨(st.vals i).name, (st.vals i).info, (st.vals i).const.map st.tens⟩

def coreOf (w : Scope.World) : Core := ⟨(List.range w.st.nv).map (cellAt w.st), w.root⟩

def numNone : List (Option Nat) → Nat
  | [] => 0
  | none :: r => numNone r + 1
  | some _ :: r => numNone r

/-- node outputs: a table value keeps its index, an anonymous output gets the next fresh index -/
def absOuts : Nat → List (Option Nat) → List Nat
  | _, [] => []
  | k, some j :: r => j :: absOuts k r
  | k, none :: r => k :: absOuts (k + 1) r

def absIns (rs : List (Option Ref)) : List (Option Nat) := rs.map fun r => r.map (·.idx)

/-- nodes of a graph without nested graphs: `k` = next fresh value index, `nid` = next node index -/
def absNodes : Nat → Nat → List IRNode → List Scope.NodeT
  | _, _, [] => []
  | k, nid, n :: ns =>
    .mk nid none (absIns n.inputs) (absOuts k n.outputs) [] :: absNodes (k + numNone n.outputs) (nid + 1) ns

def numNoneNodes : List IRNode → Nat
  | [] => 0
  | n :: ns => numNone n.outputs + numNoneNodes ns

def absGOuts : Nat → List IRGOut → List Nat
  | _, [] => []
  | k, .tbl i :: r => i :: absGOuts k r
  | k, .dangling _ :: r => k :: absGOuts (k + 1) r

def dangCells : List IRGOut → List Cell
  | [] => []
  | .tbl _ :: r => dangCells r
  | .dangling v :: r => absCell v :: dangCells r

/-- the Scope world (without derived links) of a top-level C02 graph without nested graphs -/
def absIR (g : IRGraph) : Core :=
  let n := g.table.length
  let k := n + numNoneNodes g.nodes
  ⟨g.table.map absCell ++ List.replicate (numNoneNodes g.nodes) blankCell ++ dangCells g.outputs,
   .mk 0 g.inputs (g.initializers.map fun i => ((g.table.getD i (IRValue.blank "")).name, i))
     ((absNodes n 0 g.nodes).map (Scope.NodeT.setGraph 0)) (absGOuts k g.outputs)⟩

/-! ## decidable side conditions of the serialization bridge -/

def valOK (v : IRValue) : Bool :=
  v.mprops.isEmpty && decide (absInfo (serValue v) = (absInfoV v).emit)

def tensOK (v : IRValue) : Bool :=
  match v.const with
  | none => true
  | some t => decide (absT (serTensor (t.setName v.name))
      = ⟨v.name, tensTok t, tyTok (.tensor (dtypeOf t) ""), dimsTok t.shape⟩)

def refOK (n : Nat) : Option Ref → Bool
  | none => true
  | some r => r.up == 0 && decide (r.idx < n)

def outOK (n : Nat) : Option Nat → Bool
  | none => true
  | some j => decide (j < n)

def goutOK (n : Nat) : IRGOut → Bool
  | .tbl i => decide (i < n)
  | .dangling v => valOK v

def GOK (g : IRGraph) : Bool :=
  g.table.all (fun v => valOK v && tensOK v) &&
  g.inputs.all (fun i => decide (i < g.table.length)) &&
  g.initializers.all (fun i => decide (i < g.table.length)) &&
  g.nodes.all (fun n => n.inputs.all (refOK g.table.length) && n.outputs.all (outOK g.table.length)) &&
  g.outputs.all (goutOK g.table.length)


/-- the decidable side conditions of the serialization bridge on the proto -/
def noValueMeta (g : GraphP) : Bool :=
  g.inputs.all (fun vi => vi.metadata.isEmpty) && g.outputs.all (fun vi => vi.metadata.isEmpty)
    && g.valueInfo.all (fun vi => vi.metadata.isEmpty)

def canonTensors (g : GraphP) : Bool := g.initializers.all fun t => decide (normTensor t = t)

/-- the fragment of the serialization bridge -/
def sharedS (g : GraphP) : Bool := shared g && noValueMeta g && canonTensors g

end IrVerif.Bridge

/-
Stateful model of `Graph.sort` (src/onnx_ir/_core.py:4073-4182) on a WORLD of objects: the node
containers are C11's pointer-level `DoublyLinkedSet` models (`Model/LinkedSet.lean`: boxes, root,
id->box dict -- their representation depends on the whole edit history), graph-valued attributes
and node inputs are tables keyed by node.  `sortW` does what the code does, in its order:

  1. read the tree off the world (`unfoldG`: `RecursiveGraphIterator`, each graph's node sequence is
     read from its container, each node's attribute graphs from the attribute table); a graph nested
     in itself exhausts the depth bound: `RecursionError`, raised before anything else happens;
  2. steps 1-3 of `Graph.sort` on that universe (`kahn` of `Model/Sort.lean`);
  3. the cycle test (`ValueError`) -- before any write (_core.py:4167-4169);
  4. one `graph.extend(reversed(sorted_nodes))` per graph that owns a node of the universe
     (_core.py:4179-4182), i.e. `DoublyLinkedSet.extend` on that graph's container
     (`RWorld.applyAt k (.extend xs)`), in the order `order` (the dict `sorted_nodes_by_graph` is
     created from a *set* of graphs, so the order is arbitrary); every write is recorded in the
     write trace.

Only core Lean is imported (linked into `irdriver`).
-/
import IrVerif.Model.Sort
import IrVerif.Model.LinkedSet

namespace IrVerif.Sort
open IrVerif.LinkedSet (LSet RWorld Attr Op Dir)

/-- all-or-nothing map (`none` as soon as one element gives `none`) -/
def mapO {α β : Type} (f : α → Option β) : List α → Option (List β)
  | [] => some []
  | a :: as =>
    match f a with
    | none => none
    | some b =>
      match mapO f as with
      | none => none
      | some bs => some (b :: bs)

/-- the object world `Graph.sort` runs in: node containers and graph-valued attributes (C11's
    `RWorld`; graph id = position in `rw.sets`) and, per node, `input.producer()` of each input -/
structure SWorld where
  rw : RWorld
  inputs : List (Nat × List (Option Nat))
deriving Repr

/-- `[v.producer() for v in node.inputs]` (`none`: `None` input or a value without producer) -/
def SWorld.inputsOf (w : SWorld) (v : Nat) : List (Option Nat) := (w.inputs.lookup v).getD []

/-- `list(graph)`: read from the pointer structure -/
def SWorld.order (w : SWorld) (g : Nat) : List Nat := LinkedSet.toList (w.rw.setOf g)

/-- the attribute graphs of node `v`, flattened in attribute order -/
def SWorld.subsOf (w : SWorld) (v : Nat) : List Nat := w.rw.visit .fwd v

/-- the tree `RecursiveGraphIterator(graph g)` walks, read off the world, nesting depth `< k`.
    `none`: the depth bound is exceeded (with `k > number of graphs`: some graph is nested in
    itself -- Python: `RecursionError` out of the nested generators). -/
def unfoldG (w : SWorld) : Nat → Nat → Option MGraph
  | 0, _ => none
  | k + 1, g =>
    (mapO (fun v => (mapO (fun h => unfoldG w k h) (w.subsOf v)).map (MNode.mk v (w.inputsOf v)))
      (w.order g)).map (fun ns => (g, ns))

/-- how a call ends -/
inductive SOut where
  | ok
  /-- cycle test failed (_core.py:4167-4169) -/
  | valueError
  /-- a graph nested in itself: the recursive iterator never finishes on its own -/
  | recursionError
deriving Repr, DecidableEq

/-- result of a call: outcome, world afterwards, and every container write performed, in order
    (`(graph, xs)` = `graph._nodes.extend(xs)`) -/
structure SRes where
  out : SOut
  world : SWorld
  trace : List (Nat × List Nat)

/-- first occurrences, in order -/
def firsts : List Nat → List Nat
  | [] => []
  | x :: xs => x :: (firsts xs).filter (fun y => y != x)

/-- keys of `sorted_nodes_by_graph`: `{node.graph for node in nodes}` (here in first-occurrence
    order; the code's order is that of a set) -/
def sortKeys (u : List Ent) : List Nat := firsts (u.map Ent.gid)

/-- one `DoublyLinkedSet.extend` on the container of graph `p.1` -/
def applyWrite (w : SWorld) (p : Nat × List Nat) : SWorld :=
  { w with rw := (w.rw.applyAt p.1 (.extend p.2)).1 }

def applyWrites (w : SWorld) (ws : List (Nat × List Nat)) : SWorld := ws.foldl applyWrite w

/-- depth bound used by `sortW`: one more than the number of containers of the world -/
def SWorld.fuel (w : SWorld) : Nat := w.rw.sets.length + 1

/-- `Graph.sort()` on graph `g` of world `w`, re-linking the graphs in the order `order` -/
def sortW (w : SWorld) (order : List Nat) (g : Nat) : SRes :=
  match unfoldG w w.fuel g with
  | none => ⟨.recursionError, w, []⟩
  | some t =>
    let u := nodesOf t
    let out := kahn u.length (predsAt u)
    if sharedGraph u then ⟨.valueError, w, []⟩
    else if out.length != u.length then ⟨.valueError, w, []⟩
    else
      let ws := order.map (fun k => (k, bucket u out k))
      ⟨.ok, applyWrites w ws, ws⟩

/-- the order the driver uses when it is not told the order the real code used -/
def defaultOrder (w : SWorld) (g : Nat) : List Nat :=
  match unfoldG w w.fuel g with
  | none => []
  | some t => sortKeys (nodesOf t)

/-! ### the rest of the world's alphabet (what the harness does between two sorts) -/

inductive SOp where
  /-- `Graph(...)`: a new, empty node container (its id is its position) -/
  | newGraph
  /-- a public call on the node container of graph `g` -/
  | edit (g : Nat) (op : Op)
  /-- the input producers and graph attributes of all nodes as they are now -/
  | tables (inputs : List (Nat × List (Option Nat))) (attrs : List (Nat × List Attr))
  /-- `graph.sort()` with the re-link order `order` (`none`: `defaultOrder`) -/
  | sort (g : Nat) (order : Option (List Nat))
deriving Repr

def SWorld.init : SWorld := ⟨⟨[], [], none⟩, []⟩

/-- one event; a sort also reports its result -/
def stepW (w : SWorld) : SOp → SWorld × Option SRes
  | .newGraph => ({ w with rw := { w.rw with sets := w.rw.sets ++ [LinkedSet.empty] } }, none)
  | .edit g op => ({ w with rw := (w.rw.applyAt g op).1 }, none)
  | .tables ins attrs => ({ w with inputs := ins, rw := { w.rw with attrs := attrs } }, none)
  | .sort g order =>
    let r := sortW w (order.getD (defaultOrder w g)) g
    (r.world, some r)

/-- a whole history: the results of its sorts, in order, and the final world -/
def runW : SWorld → List SOp → SWorld × List SRes
  | w, [] => (w, [])
  | w, o :: os =>
    let r := stepW w o
    let rest := runW r.1 os
    (rest.1, (match r.2 with | some x => [x] | none => []) ++ rest.2)

/-- what the theorems call the abstraction of a world: every container's node sequence, the
    attribute table and the input table -- nothing about boxes, dict order or history -/
def absW (w : SWorld) : List (List Nat) × List (Nat × List Attr) × List (Nat × List (Option Nat)) :=
  (w.rw.sets.map LinkedSet.toList, w.rw.attrs, w.inputs)

end IrVerif.Sort

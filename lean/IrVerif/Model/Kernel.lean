/-!
# IR kernel model (shared by C01 / C06)

Executable model of the use-def / ownership state of `onnx_ir` (`src/onnx_ir/_core.py`,
`_graph_containers.py`, `_name_authority.py`).  Core Lean only.

Objects live in stores indexed by creation order (the canonical identity used by the line
protocol).  A store is a `List` read with a default (`lget`) and written with padding (`lset`), so
reads and writes are total and `lget (lset l i x) j = if j = i then x else lget l j` holds with no
side condition; ids at or beyond the length read as the blank record, which is what makes a newly
allocated id fresh.

Every public editing call is modelled as  *validation (pure) ; mutation phase*.  The mutation
phase is a composition of guarded primitives (`setInput`, `attachOutput`, `detachLast`, ...), each
of which re-checks its own precondition and is a no-op when it fails.  Inside a mutation phase the
order of primitive effects may differ from the Python statement order where there is no error
point in between (the difference is not observable: the correspondence check compares complete
snapshots after every public call).  Python `assert`s that guard internal consistency are not
error points of the model.
-/
namespace IrVerif.Kernel

/-! ## Stores -/

/-- read with default -/
def lget {α : Type} [Inhabited α] : List α → Nat → α
  | [], _ => default
  | a :: _, 0 => a
  | _ :: as, i + 1 => lget as i

/-- write with padding (total; ids beyond the end extend the store with blank records) -/
def lset {α : Type} [Inhabited α] : List α → Nat → α → List α
  | [], 0, x => [x]
  | [], i + 1, x => default :: lset [] i x
  | _ :: as, 0, x => x :: as
  | a :: as, i + 1, x => a :: lset as i x

/-! ## Records -/

/-- `Value` (`_core.py:2982-3090`): name, producer/index, ordered use set, owning graph and the three
ownership flags, const tensor (by tensor id). -/
structure ValueS where
  name : Option String := none
  producer : Option Nat := none
  index : Option Int := none
  uses : List (Nat × Nat) := []
  graph : Option Nat := none
  isIn : Bool := false
  isOut : Bool := false
  isInit : Bool := false
  const : Option Nat := none
  deriving DecidableEq, Repr

instance : Inhabited ValueS := ⟨{}⟩

/-- `Node` (`_core.py:2063-2180`): input / output tuples, owning graph, name, op type (used by the name
authority), graphs held in attributes. -/
structure NodeS where
  inputs : List (Option Nat) := []
  outputs : List Nat := []
  graph : Option Nat := none
  name : Option String := none
  opType : String := ""
  attrGraphs : List Nat := []
  deriving DecidableEq, Repr

instance : Inhabited NodeS := ⟨{}⟩

/-- `Graph` (`_core.py:3512-3583`): tracked input / output lists with their reference counters
(`_graph_containers.py:27-44`; counters are stores indexed by value id), ordered initializer dict,
node sequence (abstract duplicate-free list; the pointer level is C11's), name authority
(`_name_authority.py:33-37`). -/
structure GraphS where
  inputs : List Nat := []
  outputs : List Nat := []
  inCnt : List Nat := []
  outCnt : List Nat := []
  inits : List (String × Nat) := []
  nodes : List Nat := []
  vCtr : Nat := 0
  nCtr : Nat := 0
  vNames : List String := []
  nNames : List String := []
  deriving DecidableEq, Repr

instance : Inhabited GraphS := ⟨{}⟩

structure World where
  vals : List ValueS := []
  nodes : List NodeS := []
  graphs : List GraphS := []
  tensors : List (Option String) := []
  deriving DecidableEq, Repr

instance : Inhabited World := ⟨{}⟩

def World.empty : World := {}

inductive Outcome where
  | ok
  | raised (kind : String)
  deriving DecidableEq, Repr

namespace World
def val (w : World) (v : Nat) : ValueS := lget w.vals v
def node (w : World) (n : Nat) : NodeS := lget w.nodes n
def gr (w : World) (g : Nat) : GraphS := lget w.graphs g
def setVal (w : World) (v : Nat) (x : ValueS) : World := { w with vals := lset w.vals v x }
def setNode (w : World) (n : Nat) (x : NodeS) : World := { w with nodes := lset w.nodes n x }
def setGr (w : World) (g : Nat) (x : GraphS) : World := { w with graphs := lset w.graphs g x }
end World

/-- the shape of every public call: reject (world untouched) or mutate -/
def guardOp (bad : Bool) (kind : String) (w w' : World) : World × Outcome :=
  if bad then (w, .raised kind) else (w', .ok)

/-! ## Primitives on uses / inputs  (`_core.py:3182-3194`, `2385-2398`) -/

/-- `_add_usage`: dict insertion (an existing key keeps its position) -/
def addUse (us : List (Nat × Nat)) (u : Nat × Nat) : List (Nat × Nat) :=
  if u ∈ us then us else us ++ [u]

/-- body of `replace_input_with` for an in-range index: new tuple, old use removed, new use added -/
def setInput (w : World) (n i : Nat) (nv : Option Nat) : World :=
  let nd := w.node n
  if i < nd.inputs.length then
    let old := nd.inputs.getD i none
    let w1 := w.setNode n { nd with inputs := nd.inputs.set i nv }
    let w2 := match old with
      | some o => w1.setVal o { w1.val o with uses := (w1.val o).uses.erase (n, i) }
      | none => w1
    match nv with
      | some x => w2.setVal x { w2.val x with uses := addUse (w2.val x).uses (n, i) }
      | none => w2
  else w

/-- `Node.replace_input_with` (`_core.py:2385-2398`) -/
def replaceInput (w : World) (n : Nat) (idx : Int) (nv : Option Nat) : World × Outcome :=
  guardOp (decide (idx < 0 ∨ idx ≥ (w.node n).inputs.length)) "ValueError" w (setInput w n idx.toNat nv)

/-- drop the last input slot (detach it first) -/
def popInput (w : World) (n : Nat) : World :=
  let len := (w.node n).inputs.length
  if len = 0 then w else
    let w1 := setInput w n (len - 1) none
    w1.setNode n { w1.node n with inputs := (w1.node n).inputs.dropLast }

def iter {α : Type} (f : α → α) : Nat → α → α
  | 0, a => a
  | k + 1, a => iter f k (f a)

/-- `Node.resize_inputs` (`_core.py:2341-2364`).  A negative size makes the first
`replace_input_with(new_size, None)` raise before anything is changed. -/
def resizeInputs (w : World) (n : Nat) (k : Int) : World × Outcome :=
  let cur := (w.node n).inputs.length
  guardOp (decide (k < 0)) "ValueError" w
    (if k.toNat ≤ cur then iter (fun w => popInput w n) (cur - k.toNat) w
     else w.setNode n { w.node n with inputs := (w.node n).inputs ++ List.replicate (k.toNat - cur) none })

/-! ## Primitives on outputs / producers  (`_core.py:2181-2227`, `2455-2492`) -/

/-- make `v` the next output of `n` (guard: no producer, not a graph input / initializer) -/
def attachOutput (w : World) (n v : Nat) : World :=
  let r := w.val v
  if r.producer = none ∧ r.isIn = false ∧ r.isInit = false then
    let w1 := w.setVal v { r with producer := some n, index := some ((w.node n).outputs.length : Int) }
    w1.setNode n { w1.node n with outputs := (w1.node n).outputs ++ [v] }
  else w

/-- allocate a blank value -/
def allocVal (w : World) (x : ValueS) : World × Nat :=
  (w.setVal w.vals.length x, w.vals.length)

/-- `Value(self, index=i)` appended to the outputs of `n` -/
def addOutput (w : World) (n : Nat) : World :=
  attachOutput (allocVal w {}).1 n w.vals.length

/-- detach the last output (guard: it has no uses): producer `None`, index `-1` -/
def detachLast (w : World) (n : Nat) : World :=
  match (w.node n).outputs.getLast? with
  | none => w
  | some v =>
    if (w.val v).uses = [] then
      let w1 := w.setVal v { w.val v with producer := none, index := some (-1) }
      w1.setNode n { w1.node n with outputs := (w1.node n).outputs.dropLast }
    else w

/-- `Node.resize_outputs` (`_core.py:2455-2492`).  Python slicing: a negative `new_size` denotes
`max (len + new_size) 0`.  Shrinking is rejected when a dropped output still has uses. -/
def resizeOutputs (w : World) (n : Nat) (k : Int) : World × Outcome :=
  let cur := (w.node n).outputs.length
  let newSize : Nat := if k < 0 then ((cur : Int) + k).toNat else k.toNat
  guardOp (((w.node n).outputs.drop newSize).any (fun v => (w.val v).uses ≠ [])) "ValueError" w
    (if newSize ≤ cur then iter (fun w => detachLast w n) (cur - newSize) w
     else iter (fun w => addOutput w n) (newSize - cur) w)

/-! ## Constructors -/

/-- `Value(name=…)` (`_core.py:3034-3090`); `Value(producer=…, index=…)` is outside the alphabet -/
def newValue (w : World) (name : Option String) : World × Outcome :=
  ((allocVal w { name := name }).1, .ok)

def enumFrom {α : Type} : Nat → List α → List (Nat × α)
  | _, [] => []
  | i, a :: as => (i, a) :: enumFrom (i + 1) as

/-- validation part of `Node._create_outputs` (`_core.py:2198-2214`) in its fixed form: besides a
producer, duplicates and graph inputs / initializers are rejected (D11, D12). -/
def outputsValid (w : World) (outs : List Nat) : Bool :=
  outs.all (fun v => (w.val v).producer = none ∧ (w.val v).isIn = false ∧ (w.val v).isInit = false)
    && decide outs.Nodup

/-- the rejecting conditions of `Node(...)`: `num_outputs` / `outputs` mismatch, invalid outputs -/
def newNodeBad (w : World) (numOutputs : Option Int) (outputs : Option (List Nat)) : Bool :=
  match numOutputs, outputs with
  | some k, some os => decide (k ≠ os.length) || !outputsValid w os
  | none, some os => !outputsValid w os
  | _, none => false

/-- mutation phase of `Node(...)` (`_core.py:2155-2179`): allocate the node, attach / create the
outputs, register the uses -/
def newNodeMut (w : World) (opType : String) (name : Option String) (inputs : List (Option Nat))
    (numOutputs : Option Int) (outputs : Option (List Nat)) : World :=
  let n := w.nodes.length
  let w1 := w.setNode n { inputs := List.replicate inputs.length none, name := name, opType := opType }
  let w2 := match outputs with
    | some os => os.foldl (fun w v => attachOutput w n v) w1
    | none => iter (fun w => addOutput w n) ((numOutputs.getD 1).toNat) w1
  (enumFrom 0 inputs).foldl (fun w p => setInput w n p.1 p.2) w2

/-- `Node(domain, op_type, inputs, num_outputs=…, outputs=…, name=…)` without `graph=`
(`_core.py:2102-2179`) -/
def newNodeCore (w : World) (opType : String) (name : Option String) (inputs : List (Option Nat))
    (numOutputs : Option Int) (outputs : Option (List Nat)) : World × Outcome :=
  guardOp (newNodeBad w numOutputs outputs) "ValueError" w
    (newNodeMut w opType name inputs numOutputs outputs)

/-- `Value.replace_all_uses_with` without graph outputs (`_core.py:3401-3402`) -/
def rauwUses (w : World) (v r : Nat) : World :=
  (w.val v).uses.foldl (fun w u => setInput w u.1 u.2 (some r)) w

/-! ## The operation alphabet -/

inductive Op where
  | newValue (name : Option String)
  | newNode (opType : String) (name : Option String) (inputs : List (Option Nat))
      (numOutputs : Option Int) (outputs : Option (List Nat))
  | replaceInput (n : Nat) (idx : Int) (v : Option Nat)
  | resizeInputs (n : Nat) (k : Int)
  | resizeOutputs (n : Nat) (k : Int)
  | rauw (v r : Nat)
  deriving Repr

def step (w : World) : Op → World × Outcome
  | .newValue name => newValue w name
  | .newNode opType name inputs numOutputs outputs => newNodeCore w opType name inputs numOutputs outputs
  | .replaceInput n idx v => replaceInput w n idx v
  | .resizeInputs n k => resizeInputs w n k
  | .resizeOutputs n k => resizeOutputs w n k
  | .rauw v r => (rauwUses w v r, .ok)

def run (ops : List Op) : World := ops.foldl (fun w o => (step w o).1) World.empty

end IrVerif.Kernel

import IrVerif.Model.Sort
/-!
# IR kernel model (shared by C01 / C06)

Executable model of the use-def / ownership state of `onnx_ir` (`src/onnx_ir/_core.py`,
`_graph_containers.py`, `_name_authority.py`).  Core Lean only.

Objects live in stores indexed by creation order (the canonical identity used by the line
protocol).  A store is a `List` read with a default (`lget`) and written with padding (`lset`), so
reads and writes are total and `lget (lset l i x) j = if j = i then x else lget l j` holds with no
side condition; ids at or beyond the length read as the blank record, which is what makes a newly
allocated id fresh.

Every public editing call is modelled as  *validation (pure) ; mutation phase*.  The mutation
phase is a composition of guarded primitives (`setInput`, `attachOutput`, `detachLast`, ...), each
of which re-checks its own precondition and is a no-op when it fails.  Inside a mutation phase the
order of primitive effects may differ from the Python statement order where there is no error
point in between (the difference is not observable: the correspondence check compares complete
snapshots after every public call).  Python `assert`s that guard internal consistency are not
error points of the model.

The model follows the code after the validate-first fixes (repo commits a2307a6, 5109842, 8e991c5).
One deliberate difference remains: the model rejects `Node(outputs=[initializer])` (needed for
"initializers have no producing node"), the code still accepts it (known finding D12b).  The composite
convenience calls (`rauwMany`, `replaceNodesAndValues`, `tapeInitializer`, `builderNode`) keep the effects of
the sub-calls before a rejected one, exactly like the code (known findings D82, D83); `renameValues` and the
bulk initializer update are all-or-nothing.

`Graph.sort` is `Op.sort g`: the model reads the object tree `RecursiveGraphIterator` walks off its own state
(`treeOf`: node sequences, producers of the node inputs, graph-valued attributes in dict order) and runs
C12's `Sort.sortModel` (`Model/Sort.lean`) on it.  `sortOk orders` / `sortCycle` (a sort whose result is
given as an argument and only applied when it is a permutation) remain in the alphabet; `C01_sort_step`
proves that the real sort never meets that guard.  Node attributes are model state (`NodeS.attrs`); no
clause of the invariant reads them (`C01_attr_frame`).
-/
namespace IrVerif.Kernel

/-! ## Stores -/

/-- read with default -/
def lget {α : Type} [Inhabited α] : List α → Nat → α
  | [], _ => default
  | a :: _, 0 => a
  | _ :: as, i + 1 => lget as i

/-- write with padding (total; ids beyond the end extend the store with blank records) -/
def lset {α : Type} [Inhabited α] : List α → Nat → α → List α
  | [], 0, x => [x]
  | [], i + 1, x => default :: lset [] i x
  | _ :: as, 0, x => x :: as
  | a :: as, i + 1, x => a :: lset as i x

/-! ## Records -/

/-- `Value` (`_core.py:2982-3090`): name, producer/index, ordered use set, owning graph and the three
ownership flags, const tensor (by tensor id). -/
structure ValueS where
  name : Option String := none
  producer : Option Nat := none
  index : Option Int := none
  uses : List (Nat × Nat) := []
  graph : Option Nat := none
  isIn : Bool := false
  isOut : Bool := false
  isInit : Bool := false
  const : Option Nat := none
  deriving DecidableEq, Repr

instance : Inhabited ValueS := ⟨{}⟩

/-- `Node` (`_core.py:2063-2180`): input / output tuples, owning graph, name, op type (used by the name
authority). -/
structure NodeS where
  inputs : List (Option Nat) := []
  outputs : List Nat := []
  graph : Option Nat := none
  name : Option String := none
  opType : String := ""
  /-- `Node.attributes` (`_graph_containers.py:398-411`, an ordered dict): every key in dict order with the
  graphs its attribute holds (`GRAPH`: one, `GRAPHS`: several, any other attribute type: none).  No clause
  of the invariant reads this field (`Graph` / `Attr` objects carry no back pointer to the node that holds
  them); it is what `Graph.sort` / `RecursiveGraphIterator` traverse (`treeOf`). -/
  attrs : List (String × List Nat) := []
  deriving DecidableEq, Repr

instance : Inhabited NodeS := ⟨{}⟩

/-- `Graph` (`_core.py:3512-3583`): tracked input / output lists with their reference counters
(`_graph_containers.py:27-44`; counters are stores indexed by value id), ordered initializer dict,
node sequence (abstract duplicate-free list; the pointer level is C11's), name authority
(`_name_authority.py:33-37`). -/
structure GraphS where
  inputs : List Nat := []
  outputs : List Nat := []
  inCnt : List Nat := []
  outCnt : List Nat := []
  inits : List (String × Nat) := []
  nodes : List Nat := []
  vCtr : Nat := 0
  nCtr : Nat := 0
  vNames : List String := []
  nNames : List String := []
  deriving DecidableEq, Repr

instance : Inhabited GraphS := ⟨{}⟩

structure World where
  vals : List ValueS := []
  nodes : List NodeS := []
  graphs : List GraphS := []
  tensors : List (Option String) := []
  locked : List Bool := []
  /-- per graph: names the name authority learned from ownership edits and renames
  (`register_value_name`, repo commit d1d56a4); the authority's seen set is `vNames ++ extra` -/
  extra : List (List String) := []
  /-- ghost: how many times a primitive of a mutation phase found its own check failing (Python: a
  `raise` / `assert` reached after the first write).  Not part of the IR state; see `bump`, `guardOp`. -/
  late : Nat := 0
  deriving DecidableEq, Repr

instance : Inhabited World := ⟨{}⟩

def World.empty : World := {}

inductive Outcome where
  | ok
  | raised (kind : String)
  deriving DecidableEq, Repr

namespace World
def val (w : World) (v : Nat) : ValueS := lget w.vals v
def node (w : World) (n : Nat) : NodeS := lget w.nodes n
def gr (w : World) (g : Nat) : GraphS := lget w.graphs g
def setVal (w : World) (v : Nat) (x : ValueS) : World := { w with vals := lset w.vals v x }
def setNode (w : World) (n : Nat) (x : NodeS) : World := { w with nodes := lset w.nodes n x }
def setGr (w : World) (g : Nat) (x : GraphS) : World := { w with graphs := lset w.graphs g x }
end World

/-- the value's const tensor refuses to be renamed (a `TensorProtocol` object with a read-only name) -/
def constLocked (w : World) (v : Nat) : Bool :=
  match (w.val v).const with
  | some t => lget w.locked t
  | none => false

/-- the value can receive a generated name: it has a name already, or its tensor accepts renaming
(the probe of proposed fix D85, done in the validation phase of every call that names values) -/
def valNamable (w : World) (v : Nat) : Bool := !(decide ((w.val v).name = none) && constLocked w v)

def addName (seen : List String) (s : String) : List String := if seen.contains s then seen else s :: seen

/-- `NameAuthority.register_value_name(name)` of graph `g` -/
def noteName (w : World) (g : Nat) (s : Option String) : World :=
  match s with
  | some nm => { w with extra := lset w.extra g (addName (lget w.extra g) nm) }
  | none => w

/-- `Value.graph`: the owning graph, else the producer's graph -/
def ownerOf (w : World) (v : Nat) : Option Nat :=
  match (w.val v).graph with
  | some g => some g
  | none =>
    match (w.val v).producer with
    | some n => (w.node n).graph
    | none => none

/-- end of the `Value.name` setter: the owner's authority learns the new name -/
def noteOwner (w : World) (v : Nat) (s : Option String) : World :=
  match ownerOf w v with
  | some g => noteName w g s
  | none => w

/-- a primitive of a mutation phase whose own check fails does nothing and records the fact: in the
Python this is a `raise` (or failing `assert`) that comes after earlier writes of the same call -/
def bump (w : World) : World := { w with late := w.late + 1 }

/-- the shape of every public call: the up-front validation rejects (world untouched), or the
mutation phase runs; a check that fails inside the mutation phase makes the call raise as well — with
whatever was written before it (that this never happens after a passed validation is theorem
`C01_mutation_faithful`, from which `C06_atomic` follows) -/
def guardOp (bad : Bool) (kind : String) (w w' : World) : World × Outcome :=
  if bad then (w, .raised kind)
  else if w'.late = w.late then (w', .ok) else (w', .raised "late-check")

/-! ## Primitives on uses / inputs  (`_core.py:3182-3194`, `2385-2398`) -/

/-- `_add_usage`: dict insertion (an existing key keeps its position) -/
def addUse (us : List (Nat × Nat)) (u : Nat × Nat) : List (Nat × Nat) :=
  if u ∈ us then us else us ++ [u]

/-- body of `replace_input_with` for an in-range index: new tuple, old use removed, new use added -/
def setInput (w : World) (n i : Nat) (nv : Option Nat) : World :=
  let nd := w.node n
  if i < nd.inputs.length then
    let old := nd.inputs.getD i none
    let w1 := w.setNode n { nd with inputs := nd.inputs.set i nv }
    let w2 := match old with
      | some o => w1.setVal o { w1.val o with uses := (w1.val o).uses.erase (n, i) }
      | none => w1
    match nv with
      | some x => w2.setVal x { w2.val x with uses := addUse (w2.val x).uses (n, i) }
      | none => w2
  else bump w

/-- `Node.replace_input_with` (`_core.py:2385-2398`) -/
def replaceInput (w : World) (n : Nat) (idx : Int) (nv : Option Nat) : World × Outcome :=
  guardOp (decide (idx < 0 ∨ idx ≥ (w.node n).inputs.length)) "ValueError" w (setInput w n idx.toNat nv)

/-- drop the last input slot (detach it first) -/
def popInput (w : World) (n : Nat) : World :=
  let len := (w.node n).inputs.length
  if len = 0 then bump w else
    let w1 := setInput w n (len - 1) none
    w1.setNode n { w1.node n with inputs := (w1.node n).inputs.dropLast }

def iter {α : Type} (f : α → α) : Nat → α → α
  | 0, a => a
  | k + 1, a => iter f k (f a)

/-- `Node.resize_inputs` (`_core.py:2341-2364`).  A negative size makes the first
`replace_input_with(new_size, None)` raise before anything is changed. -/
def resizeInputs (w : World) (n : Nat) (k : Int) : World × Outcome :=
  let cur := (w.node n).inputs.length
  guardOp (decide (k < 0)) "ValueError" w
    (if k.toNat ≤ cur then iter (fun w => popInput w n) (cur - k.toNat) w
     else w.setNode n { w.node n with inputs := (w.node n).inputs ++ List.replicate (k.toNat - cur) none })

/-! ## Primitives on outputs / producers  (`_core.py:2181-2227`, `2455-2492`) -/

/-- make `v` the next output of `n` (guard: no producer, not a graph input / initializer) -/
def attachOutput (w : World) (n v : Nat) : World :=
  let r := w.val v
  if r.producer = none ∧ r.isIn = false ∧ r.isInit = false then
    let w1 := w.setVal v { r with producer := some n, index := some ((w.node n).outputs.length : Int) }
    w1.setNode n { w1.node n with outputs := (w1.node n).outputs ++ [v] }
  else bump w

/-- allocate a blank value -/
def allocVal (w : World) (x : ValueS) : World × Nat :=
  (w.setVal w.vals.length x, w.vals.length)

/-- `Value(self, index=i)` appended to the outputs of `n` -/
def addOutput (w : World) (n : Nat) : World :=
  attachOutput (allocVal w {}).1 n w.vals.length

/-- detach the last output (guard: it has no uses): producer `None`, index `-1` -/
def detachLast (w : World) (n : Nat) : World :=
  match (w.node n).outputs.getLast? with
  | none => bump w
  | some v =>
    if (w.val v).uses = [] then
      let w1 := w.setVal v { w.val v with producer := none, index := some (-1) }
      w1.setNode n { w1.node n with outputs := (w1.node n).outputs.dropLast }
    else bump w

/-- `Node.resize_outputs` (`_core.py:2455-2492`).  Python slicing: a negative `new_size` denotes
`max (len + new_size) 0`.  Shrinking is rejected when a dropped output still has uses. -/
def resizeOutputs (w : World) (n : Nat) (k : Int) : World × Outcome :=
  let cur := (w.node n).outputs.length
  let newSize : Nat := if k < 0 then ((cur : Int) + k).toNat else k.toNat
  guardOp (((w.node n).outputs.drop newSize).any (fun v => (w.val v).uses ≠ [])) "ValueError" w
    (if newSize ≤ cur then iter (fun w => detachLast w n) (cur - newSize) w
     else iter (fun w => addOutput w n) (newSize - cur) w)

/-! ## Constructors -/

/-- `Value(name=…)` (`_core.py:3034-3090`); `Value(producer=…, index=…)` is outside the alphabet -/
def newValue (w : World) (name : Option String) : World × Outcome :=
  guardOp false "" w (allocVal w { name := name }).1

/-- first occurrences, in order (`frozenset` / `dict.fromkeys` of node or position lists) -/
def dedup : List Nat → List Nat
  | [] => []
  | a :: l => a :: (dedup l).filter (· ≠ a)

def enumFrom {α : Type} : Nat → List α → List (Nat × α)
  | _, [] => []
  | i, a :: as => (i, a) :: enumFrom (i + 1) as

/-- validation part of `Node._create_outputs` (`_core.py:2198-2214`) in its fixed form: besides a
producer, duplicates and graph inputs / initializers are rejected (D11, D12). -/
def outputsValid (w : World) (outs : List Nat) : Bool :=
  outs.all (fun v => (w.val v).producer = none ∧ (w.val v).isIn = false ∧ (w.val v).isInit = false)
    && decide outs.Nodup

/-- the rejecting conditions of `Node(...)`: `num_outputs` / `outputs` mismatch, invalid outputs -/
def newNodeBad (w : World) (numOutputs : Option Int) (outputs : Option (List Nat)) : Bool :=
  match numOutputs, outputs with
  | some k, some os => decide (k ≠ os.length) || !outputsValid w os
  | none, some os => !outputsValid w os
  | _, none => false

/-- mutation phase of `Node(...)` (`_core.py:2155-2179`): allocate the node, attach / create the
outputs, register the uses -/
def newNodeMut (w : World) (opType : String) (name : Option String) (inputs : List (Option Nat))
    (numOutputs : Option Int) (outputs : Option (List Nat)) : World :=
  let n := w.nodes.length
  let w1 := w.setNode n { inputs := List.replicate inputs.length none, name := name, opType := opType }
  let w2 := match outputs with
    | some os => os.foldl (fun w v => attachOutput w n v) w1
    | none => iter (fun w => addOutput w n) ((numOutputs.getD 1).toNat) w1
  (enumFrom 0 inputs).foldl (fun w p => setInput w n p.1 p.2) w2

/-- `Node(domain, op_type, inputs, num_outputs=…, outputs=…, name=…)` without `graph=`
(`_core.py:2102-2179`) -/
def newNodeCore (w : World) (opType : String) (name : Option String) (inputs : List (Option Nat))
    (numOutputs : Option Int) (outputs : Option (List Nat)) : World × Outcome :=
  guardOp (newNodeBad w numOutputs outputs) "ValueError" w
    (newNodeMut w opType name inputs numOutputs outputs)

/-- `Value.replace_all_uses_with` without graph outputs (`_core.py:3401-3402`) -/
def rauwUses (w : World) (v r : Nat) : World :=
  (w.val v).uses.foldl (fun w u => setInput w u.1 u.2 (some r)) w

/-! ## Tracked graph input / output lists  (`_graph_containers.py:27-260`) -/

inductive IOKind where
  | inp
  | out
  deriving DecidableEq, Repr

def ioList : IOKind → GraphS → List Nat
  | .inp, r => r.inputs
  | .out, r => r.outputs
def ioCnt : IOKind → GraphS → List Nat
  | .inp, r => r.inCnt
  | .out, r => r.outCnt
def setIoList : IOKind → GraphS → List Nat → GraphS
  | .inp, r, l => { r with inputs := l }
  | .out, r, l => { r with outputs := l }
def setIoCnt : IOKind → GraphS → List Nat → GraphS
  | .inp, r, l => { r with inCnt := l }
  | .out, r, l => { r with outCnt := l }
def ioFlag : IOKind → ValueS → Bool
  | .inp, r => r.isIn
  | .out, r => r.isOut
def setIoFlag : IOKind → ValueS → Bool → ValueS
  | .inp, r, b => { r with isIn := b }
  | .out, r, b => { r with isOut := b }

/-- `Value._owned_by_graph` (`_core.py:3145-3150`) -/
def owned (r : ValueS) : Bool := r.isIn || r.isOut || r.isInit

/-- `_check_value` of `GraphInputs` / `GraphOutputs`: not owned by another graph; inputs have no
producer -/
def checkIO (w : World) (g : Nat) (k : IOKind) (v : Nat) : Bool :=
  (decide ((w.val v).graph = none) || decide ((w.val v).graph = some g)) &&
    (decide (k = .out) || decide ((w.val v).producer = none))

/-- `_set_graph` after the check: counter, flag, owning graph -/
def setIO (w : World) (g : Nat) (k : IOKind) (v : Nat) : World :=
  let r := w.gr g
  let w1 := w.setGr g (setIoCnt k r (lset (ioCnt k r) v (lget (ioCnt k r) v + 1)))
  noteName (w1.setVal v (setIoFlag k { w1.val v with graph := some g } true)) g (w.val v).name

/-- `_maybe_unset_graph`: counter; flag and owning graph only when the last reference goes -/
def unsetIO (w : World) (g : Nat) (k : IOKind) (v : Nat) : World :=
  let r := w.gr g
  let c := lget (ioCnt k r) v - 1
  let w1 := w.setGr g (setIoCnt k r (lset (ioCnt k r) v c))
  if c > 0 then w1 else
    let x := setIoFlag k (w1.val v) false
    w1.setVal v { x with graph := if owned x then x.graph else none }

def insertAt (l : List Nat) (pos v : Nat) : List Nat := l.take pos ++ v :: l.drop pos

/-- guarded primitive: own `v` and put it at position `pos` -/
def ioInsert (w : World) (g : Nat) (k : IOKind) (pos v : Nat) : World :=
  if checkIO w g k v then
    let w1 := setIO w g k v
    w1.setGr g (setIoList k (w1.gr g) (insertAt (ioList k (w1.gr g)) pos v))
  else bump w

/-- guarded primitive: take the element at `pos` out and release it -/
def ioRemoveAt (w : World) (g : Nat) (k : IOKind) (pos : Nat) : World :=
  match (ioList k (w.gr g))[pos]? with
  | none => bump w
  | some v =>
    let w1 := w.setGr g (setIoList k (w.gr g) ((ioList k (w.gr g)).eraseIdx pos))
    unsetIO w1 g k v

def ioReverse (w : World) (g : Nat) (k : IOKind) : World :=
  w.setGr g (setIoList k (w.gr g) (ioList k (w.gr g)).reverse)

/-- Python index normalisation for `list[i]` / `pop(i)`: `none` = IndexError -/
def normIndex (len : Nat) (i : Int) : Option Nat :=
  let j := if i < 0 then i + len else i
  if j < 0 ∨ j ≥ len then none else some j.toNat

/-- `list.insert` position -/
def insertPos (len : Nat) (i : Int) : Nat :=
  let j := if i < 0 then i + len else i
  if j < 0 then 0 else if j > len then len else j.toNat

/-- `slice.indices(len)` (CPython `PySlice_AdjustIndices`): the positions addressed by
`[start:stop:step]` in order, and whether the slice is a simple one (step 1).  `none` = step 0. -/
def sliceAdjust (len : Nat) (step : Int) (x : Option Int) (dflt : Int) : Int :=
  match x with
  | none => dflt
  | some s =>
    if s < 0 then
      let s' := s + len
      if s' < 0 then (if step < 0 then -1 else 0) else s'
    else if s ≥ len then (if step < 0 then (len : Int) - 1 else len)
    else s

structure SliceIx where
  start : Nat
  stop : Nat          -- only meaningful for step = 1 (stop ≥ start)
  step1 : Bool
  pos : List Nat
  deriving Repr

def sliceIndices (len : Nat) (start stop step : Option Int) : Option SliceIx :=
  let st := step.getD 1
  if st = 0 then none else
    let a := sliceAdjust len st start (if st < 0 then (len : Int) - 1 else 0)
    let b := sliceAdjust len st stop (if st < 0 then -1 else len)
    let n : Nat :=
      if st < 0 then (if b < a then ((a - b - 1) / (-st) + 1).toNat else 0)
      else (if a < b then ((b - a - 1) / st + 1).toNat else 0)
    -- `min … len`, `filter (· < len)`, `dedup` change nothing for the positions Python computes (they are
    -- distinct indices of the list); they make that fact visible to the proofs
    some { start := min a.toNat len, stop := min (if b < a then a else b).toNat len, step1 := decide (st = 1),
           pos := dedup (((List.range n).map (fun (j : Nat) => (a + (j : Int) * st).toNat)).filter (· < len)) }

/-- insert the values `vs` at consecutive positions starting at `pos` -/
def ioInsertMany (w : World) (g : Nat) (k : IOKind) (pos : Nat) (vs : List Nat) : World :=
  (enumFrom pos vs).foldl (fun w p => ioInsert w g k p.1 p.2) w

/-- remove the given positions, largest first (so that the remaining positions stay valid) -/
def ioRemoveMany (w : World) (g : Nat) (k : IOKind) (ps : List Nat) : World :=
  (ps.mergeSort (fun a b => decide (b ≤ a))).foldl (fun w p => ioRemoveAt w g k p) w

/-- replace position by position (`lst[p_j] = v_j`) -/
def ioReplaceMany (w : World) (g : Nat) (k : IOKind) (ps : List Nat) (vs : List Nat) : World :=
  (ps.zip vs).foldl (fun w p => ioInsert (ioRemoveAt w g k p.1) g k p.1 p.2) w

inductive IOMut where
  | append (v : Nat)
  | extend (vs : List Nat)
  | insert (i : Int) (v : Nat)
  | pop (i : Int)
  | remove (v : Nat)
  | clear
  | setItem (i : Int) (v : Nat)
  | setSlice (start stop step : Option Int) (vs : List Nat)
  | delItem (i : Int)
  | delSlice (start stop step : Option Int)
  | reverse
  | iadd (vs : List Nat)
  | imul (k : Int)
  /-- `lst.sort(key=f, reverse=rev)` inherited from `collections.UserList` (`self.data.sort(...)`): `keys` is
  the key function tabulated by value id -/
  | sort (keys : List Nat) (rev : Bool)
  deriving Repr

/-- `list.sort(key=…, reverse=…)` (CPython `list_sort_impl`): stable; `reverse=True` reverses, sorts,
reverses (so equal keys keep their original order) -/
def sortedBy (keys : List Nat) (rev : Bool) (l : List Nat) : List Nat :=
  if rev then ((l.reverse).mergeSort (fun a b => decide (lget keys a ≤ lget keys b))).reverse
  else l.mergeSort (fun a b => decide (lget keys a ≤ lget keys b))

/-- the tracked list is rearranged in place; no `_set_graph` / `_maybe_unset_graph` runs -/
def ioPermute (w : World) (g : Nat) (k : IOKind) (l : List Nat) : World :=
  w.setGr g (setIoList k (w.gr g) l)

/-- run `f` at a position when there is one -/
def atPos (o : Option Nat) (f : Nat → World) (w : World) : World :=
  match o with
  | some p => f p
  | none => bump w

/-- every mutator of `_GraphIO` (`_graph_containers.py:58-165`, after the validate-first fixes): the
rejecting condition, then the mutation -/
def ioMut (w : World) (g : Nat) (k : IOKind) : IOMut → World × Outcome
  | .append v => guardOp (!checkIO w g k v) "ValueError" w (ioInsert w g k (ioList k (w.gr g)).length v)
  | .extend vs =>
    guardOp (!vs.all (checkIO w g k)) "ValueError" w (ioInsertMany w g k (ioList k (w.gr g)).length vs)
  | .insert i v =>
    guardOp (!checkIO w g k v) "ValueError" w (ioInsert w g k (insertPos (ioList k (w.gr g)).length i) v)
  | .pop i =>
    let p := normIndex (ioList k (w.gr g)).length i
    guardOp p.isNone "IndexError" w (atPos p (ioRemoveAt w g k) w)
  | .remove v =>
    let p := (ioList k (w.gr g)).idxOf? v
    guardOp p.isNone "ValueError" w (atPos p (ioRemoveAt w g k) w)
  | .clear => guardOp false "" w (iter (fun w => ioRemoveAt w g k 0) (ioList k (w.gr g)).length w)
  | .setItem i v =>
    let p := normIndex (ioList k (w.gr g)).length i
    guardOp (p.isNone || !checkIO w g k v) "IndexError|ValueError" w
      (atPos p (fun p => ioInsert (ioRemoveAt w g k p) g k p v) w)
  | .setSlice start stop step vs =>
    match sliceIndices (ioList k (w.gr g)).length start stop step with
    | none => (w, .raised "ValueError")
    | some ix =>
      guardOp (!vs.all (checkIO w g k) || (!ix.step1 && decide (ix.pos.length ≠ vs.length))) "ValueError" w
        (if ix.step1 then
           ioInsertMany (iter (fun w => ioRemoveAt w g k ix.start) (ix.stop - ix.start) w) g k ix.start vs
         else ioReplaceMany w g k ix.pos vs)
  | .delItem i =>
    let p := normIndex (ioList k (w.gr g)).length i
    guardOp p.isNone "IndexError" w (atPos p (ioRemoveAt w g k) w)
  | .delSlice start stop step =>
    match sliceIndices (ioList k (w.gr g)).length start stop step with
    | none => (w, .raised "ValueError")
    | some ix => guardOp false "" w (ioRemoveMany w g k ix.pos)
  | .reverse => guardOp false "" w (ioReverse w g k)
  | .iadd _ => (w, .raised "RuntimeError")
  | .imul _ => (w, .raised "RuntimeError")
  | .sort keys rev => guardOp false "" w (ioPermute w g k (sortedBy keys rev (ioList k (w.gr g))))

/-! ## Name authority  (`_name_authority.py`) -/

def valName (k : Nat) : String := "val_" ++ toString k
def nodeName (op : String) (k : Nat) : String := "node_" ++ op ++ "_" ++ toString k

/-- the `while True` loop of `_unique_value_name` / `_unique_node_name` with an iteration budget
(`|seen| + 1` iterations always suffice: C15) -/
def uniqueLoop (mk : Nat → String) (seen : List String) : Nat → Nat → String × Nat
  | 0, c => (mk c, c + 1)
  | fuel + 1, c => if seen.contains (mk c) then uniqueLoop mk seen fuel (c + 1) else (mk c, c + 1)

/-- plain `Value.name = s` for a value that is not an initializer (`_core.py:3220-3226`): the const
tensor is renamed as well -/
def setNamePlain (w : World) (v : Nat) (s : Option String) : World :=
  let w1 := noteOwner (w.setVal v { w.val v with name := s }) v s
  match (w.val v).const with
  | none => w1
  | some t => { w1 with tensors := lset w1.tensors t s }

/-- `register_or_name_value` (`_name_authority.py:55-63`) -/
def registerValue (w : World) (g v : Nat) : World :=
  match (w.val v).name with
  | some s => w.setGr g { w.gr g with vNames := addName (w.gr g).vNames s }
  | none =>
    let r := w.gr g
    let seen := r.vNames ++ lget w.extra g
    let (s, c) := uniqueLoop valName seen (seen.length + 1) r.vCtr
    let w1 := w.setGr g { r with vCtr := c, vNames := addName r.vNames s }
    if (w.val v).isInit || constLocked w v then bump w1 else setNamePlain w1 v (some s)

/-- `register_or_name_node` (`_name_authority.py:65-72`) -/
def registerNode (w : World) (g n : Nat) : World :=
  match (w.node n).name with
  | some s => w.setGr g { w.gr g with nNames := addName (w.gr g).nNames s }
  | none =>
    let r := w.gr g
    let (s, c) := uniqueLoop (nodeName (w.node n).opType) r.nNames (r.nNames.length + 1) r.nCtr
    (w.setGr g { r with nCtr := c, nNames := addName r.nNames s }).setNode n { w.node n with name := some s }

/-! ## Initializers  (`_graph_containers.py:262-345`, `_core.py:3200-3247`, `3622-3652`) -/

def falsy (s : Option String) : Bool := s = none || s = some ""

def lookupInit (l : List (String × Nat)) (k : String) : Option Nat := (l.find? (fun p => p.1 = k)).map (·.2)

/-- dict assignment: an existing key keeps its position -/
def dictSet (l : List (String × Nat)) (k : String) (v : Nat) : List (String × Nat) :=
  if (l.any (fun p => p.1 = k)) then l.map (fun p => if p.1 = k then (k, v) else p) else l ++ [(k, v)]

def dictDel (l : List (String × Nat)) (k : String) : List (String × Nat) := l.filter (fun p => p.1 ≠ k)

/-- all the checks of `GraphInitializers.__setitem__` (after the validate-first fix) -/
def initOK (w : World) (g : Nat) (key : String) (v : Nat) : Bool :=
  let r := w.val v
  key ≠ "" && (falsy r.name || r.name = some key) && r.producer = none &&
    (r.graph = none || r.graph = some g) && (!falsy r.name || (!r.isInit && !constLocked w v))

/-- `_maybe_unset_graph` of the initializer mapping -/
def unsetInit (w : World) (v : Nat) : World :=
  let x := { w.val v with isInit := false }
  w.setVal v { x with graph := if owned x then x.graph else none }

/-- guarded primitive: `del initializers[key]` -/
def initDel (w : World) (g : Nat) (key : String) : World :=
  match lookupInit (w.gr g).inits key with
  | none => bump w
  | some old => (unsetInit w old).setGr g { w.gr g with inits := dictDel (w.gr g).inits key }

/-- guarded primitive: body of `initializers[key] = v`: name an unnamed value after the key, release
the previous holder of the key, own `v`, store it -/
def initPut (w : World) (g : Nat) (key : String) (v : Nat) : World :=
  if initOK w g key v then
    let w1 := if falsy (w.val v).name then setNamePlain w v (some key) else w
    let w2 := match lookupInit (w1.gr g).inits key with
      | some old => unsetInit w1 old
      | none => w1
    let w3 := w2.setVal v { w2.val v with isInit := true, graph := some g }
    noteName (w3.setGr g { w3.gr g with inits := dictSet (w3.gr g).inits key v }) g (some key)
  else bump w

inductive InitMut where
  | setItem (key : String) (v : Nat)
  | delItem (key : String)
  | add (v : Nat)
  | pop (key : String)
  | popitem
  | clear
  | update (kvs : List (String × Nat))
  | setdefault (key : String) (v : Nat)
  | register (v : Nat)
  deriving Repr

def initSetItem (w : World) (g : Nat) (key : String) (v : Nat) : World × Outcome :=
  guardOp (!initOK w g key v) "ValueError" w (initPut w g key v)

/-- one `__setitem__` per entry, stopping at the first rejected one -/
def initUpdateSeq (w : World) (g : Nat) : List (String × Nat) → World × Outcome
  | [] => (w, .ok)
  | (k, v) :: rest =>
    match initSetItem w g k v with
    | (w1, .ok) => initUpdateSeq w1 g rest
    | r => r

/-- `update` / `|=` / the constructor's dict: every entry is checked first (taking into account the
names the call itself assigns to unnamed values), then the entries are assigned one by one; i.e. all
or nothing -/
def initUpdate (w : World) (g : Nat) (kvs : List (String × Nat)) : World × Outcome :=
  guardOp (decide ((initUpdateSeq w g kvs).2 ≠ .ok)) "ValueError" w (initUpdateSeq w g kvs).1

def withName (o : Option String) (f : String → World) (w : World) : World :=
  match o with
  | some s => f s
  | none => bump w

def initMut (w : World) (g : Nat) : InitMut → World × Outcome
  | .setItem key v => initSetItem w g key v
  | .delItem key =>
    guardOp ((lookupInit (w.gr g).inits key).isNone) "KeyError" w (initDel w g key)
  | .add v =>
    let nm := (w.val v).name
    guardOp (nm.isNone || !initOK w g (nm.getD "") v) "TypeError|ValueError" w
      (withName nm (fun key => initPut w g key v) w)
  | .pop key =>
    guardOp ((lookupInit (w.gr g).inits key).isNone) "KeyError" w (initDel w g key)
  | .popitem =>
    guardOp (w.gr g).inits.isEmpty "KeyError" w
      (withName ((w.gr g).inits.head?.map (·.1)) (fun k => initDel w g k) w)
  | .clear => guardOp false "" w
      (iter (fun w => withName ((w.gr g).inits.head?.map (·.1)) (fun k => initDel w g k) w) (w.gr g).inits.length w)
  | .update kvs => initUpdate w g kvs
  | .setdefault key v =>
    let present := (lookupInit (w.gr g).inits key).isSome
    guardOp (!present && !initOK w g key v) "ValueError" w (if present then w else initPut w g key v)
  | .register v =>
    let nm := (w.val v).name
    let key := nm.getD ""
    guardOp (nm.isNone || key = "" || (match lookupInit (w.gr g).inits key with
        | some old => old ≠ v
        | none => false) || (w.val v).const = none || !initOK w g key v) "ValueError" w (initPut w g key v)

/-- `Value.name = s` (`_core.py:3200-3247`, with the empty-name check of the fix): nothing to do for
the same name; an initializer may only take a non-empty name that is not a key of its graph, and is
re-keyed (moved to the end of the mapping); a const tensor that refuses the new name makes the call
raise before anything changed -/
def setName (w : World) (v : Nat) (s : Option String) : World × Outcome :=
  let r := w.val v
  let reKey : Option (String × Nat × String) :=
    match s, r.graph, r.name with
    | some new, some g, some old => some (new, g, old)
    | _, _, _ => none
  guardOp (decide (r.name ≠ s) && (constLocked w v || (r.isInit &&
      (match reKey with
        | some (new, g, _) => decide (new = "") || (lookupInit (w.gr g).inits new).isSome
        | none => true)))) "ValueError|AttributeError" w
    (if r.name = s then w
     else if r.isInit then
       match reKey with
       | some (new, g, old) => initPut (setNamePlain (initDel w g old) v (some new)) g new v
       | none => w
     else setNamePlain w v s)

/-! ## Node membership  (`_core.py:3691-3714`, `3842-3947`, `_linked_list.py:151-284`) -/

def nodeAddable (w : World) (g n : Nat) : Bool := (w.node n).graph = none || (w.node n).graph = some g

/-- `_check_node_can_be_added` (with the D85 probe): the node is free or already in `g`, and every
output that is going to receive a generated name can take one -/
def nodeAcceptable (w : World) (g n : Nat) : Bool :=
  nodeAddable w g n && (w.node n).outputs.all (valNamable w)

def insertAfter (l : List Nat) (anchor : Option Nat) (x : Nat) : List Nat :=
  match anchor with
  | none => x :: l
  | some a =>
    match l.idxOf? a with
    | some i => l.take (i + 1) ++ x :: l.drop (i + 1)
    | none => l ++ [x]

/-- `_insert_one_after` on the abstract sequence: the same value as the anchor is a no-op, a value
already present is moved -/
def linkAfter (l : List Nat) (anchor : Option Nat) (x : Nat) : List Nat :=
  if anchor = some x ∧ x ∈ l then l else insertAfter (l.erase x) anchor x

/-- guarded primitive: make `n` a member of `g` right after `anchor` (`none` = at the front) -/
def nodeLink (w : World) (g : Nat) (anchor : Option Nat) (n : Nat) : World :=
  if nodeAddable w g n then
    (w.setNode n { w.node n with graph := some g }).setGr g
      { w.gr g with nodes := linkAfter (w.gr g).nodes anchor n }
  else bump w

/-- guarded primitive: take `n` out of `g` -/
def nodeUnlink (w : World) (g n : Nat) : World :=
  if (w.node n).graph = some g then
    (w.setNode n { w.node n with graph := none }).setGr g { w.gr g with nodes := (w.gr g).nodes.erase n }
  else bump w

/-- the naming half of `_set_node_graph_to_self_and_assign_names` -/
def assignNames (w : World) (g n : Nat) : World :=
  (w.node n).outputs.foldl (fun w o => registerValue w g o) (registerNode w g n)

/-- `_insert_many_after` with the names assigned first -/
def linkMany (w : World) (g : Nat) (anchor : Option Nat) (ns : List Nat) : World :=
  (ns.foldl (fun (p : World × Option Nat) n => (nodeLink (assignNames p.1 g n) g p.2 n, some n)) (w, anchor)).1

def graphAppend (w : World) (g n : Nat) : World × Outcome :=
  guardOp (!nodeAcceptable w g n) "ValueError" w
    (nodeLink (assignNames w g n) g (w.gr g).nodes.getLast? n)

/-- `Graph.extend` = one `append` per node after all have been checked -/
def extendMut (w : World) (g : Nat) (ns : List Nat) : World :=
  ns.foldl (fun w n => nodeLink (assignNames w g n) g (w.gr g).nodes.getLast? n) w

def graphExtend (w : World) (g : Nat) (ns : List Nat) : World × Outcome :=
  guardOp (!ns.all (nodeAcceptable w g)) "ValueError" w (extendMut w g ns)

def predOf (l : List Nat) (a : Nat) : Option Nat :=
  match l.idxOf? a with
  | some (i + 1) => l[i]?
  | _ => none

def graphInsertAfter (w : World) (g a : Nat) (ns : List Nat) : World × Outcome :=
  guardOp ((w.node a).graph ≠ some g || !ns.all (nodeAcceptable w g)) "ValueError" w (linkMany w g (some a) ns)

def graphInsertBefore (w : World) (g a : Nat) (ns : List Nat) : World × Outcome :=
  guardOp ((w.node a).graph ≠ some g || !ns.all (nodeAcceptable w g)) "ValueError" w
    (linkMany w g (predOf (w.gr g).nodes a) ns)

/-- `_check_node_safe_to_remove` (`_core.py:3476-3509`) -/
def unsafeToRemove (w : World) (g : Nat) (set : List Nat) (n : Nat) : Bool :=
  (w.node n).outputs.any (fun o => (w.gr g).outputs.contains o ||
    (w.val o).uses.any (fun u => !set.contains u.1))

def detachInputs (w : World) (n : Nat) : World :=
  (List.range (w.node n).inputs.length).foldl (fun w i => setInput w n i none) w

/-- `Graph.remove(nodes, safe=…)` (`_core.py:3869-3907`) -/
def graphRemove (w : World) (g : Nat) (ns : List Nat) (safe : Bool) : World × Outcome :=
  guardOp (ns.any (fun n => (w.node n).graph ≠ some g || (safe && unsafeToRemove w g ns n))) "ValueError" w
    ((dedup ns).foldl (fun w n => nodeUnlink (if safe then detachInputs w n else w) g n) w)

/-- `Graph.sort()` seen from the kernel: either a cycle is reported (nothing changes) or every
involved graph is re-extended with a permutation of its own nodes (`_core.py:4036-4043`).  Which
permutation is C12's subject; here it is an argument; a list that is not a permutation of the graph's
current sequence is not a possible result and is refused (`sortBad`). -/
def sortBad (w : World) (orders : List (Nat × List Nat)) : Bool :=
  orders.any (fun p => !p.2.isPerm (w.gr p.1).nodes || !p.2.all (nodeAcceptable w p.1))

def sortApply (w : World) (orders : List (Nat × List Nat)) : World :=
  orders.foldl (fun w p =>
    if p.2.isPerm (w.gr p.1).nodes && p.2.all (nodeAcceptable w p.1) then extendMut w p.1 p.2 else w) w

/-! ## Constructors with a graph -/

/-- `{initializer.name: initializer for …}`: later entries win, first position kept -/
def initDict (w : World) (vs : List Nat) : List (String × Nat) :=
  vs.foldl (fun d v => dictSet d ((w.val v).name.getD "") v) []

/-- `Graph(inputs, outputs, nodes=…, initializers=…)` (`_core.py:3561-3593`) with every check done
before the first effect -/
def newGraph (w : World) (inputs outputs nodes inits : List Nat) : World × Outcome :=
  let g := w.graphs.length
  let bad := !inputs.all (checkIO w g .inp) || !outputs.all (checkIO w g .out) ||
    !(initDict w inits).all (fun p => initOK w g p.1 p.2) ||
    !nodes.all (nodeAcceptable w g) || !inputs.all (valNamable w)
  guardOp bad "ValueError" w <|
    let w0 := w.setGr g {}
    let w1 := ioInsertMany w0 g .inp 0 inputs
    let w2 := ioInsertMany w1 g .out 0 outputs
    let d := initDict w inits
    let w3 := d.foldl (fun w p => initPut w g p.1 p.2) w2
    let w4 := inputs.foldl (fun w v => registerValue w g v) w3
    let w5 := d.foldl (fun w p => registerValue w g p.2) w4
    extendMut w5 g nodes

/-- `Node(…, graph=g)`: `graph.append(self)` happens between output creation and use
registration; a new node belongs to no graph, so it cannot be rejected -/
def newNode (w : World) (opType : String) (name : Option String) (inputs : List (Option Nat))
    (numOutputs : Option Int) (outputs : Option (List Nat)) (graph : Option Nat) : World × Outcome :=
  guardOp (newNodeBad w numOutputs outputs ||
      (graph.isSome && !(outputs.getD []).all (valNamable w))) "ValueError" w <|
    let n := w.nodes.length
    let w1 := newNodeMut w opType name inputs numOutputs outputs
    match graph with
    | none => w1
    | some g => nodeLink (assignNames w1 g n) g (w1.gr g).nodes.getLast? n

/-- `Value.replace_all_uses_with(replacement, replace_graph_outputs=…)` (`_core.py:3361-3414`): a
graph output is only replaced when asked to and when the graph accepts the replacement -/
def rauw (w : World) (v r : Nat) (rgo : Bool) : World × Outcome :=
  let og := if (w.val v).isOut then (w.val v).graph else none
  guardOp ((w.val v).isOut && (match (w.val v).graph with
      | some g => !rgo || !checkIO w g .out r
      | none => true)) "ValueError" w
    (rauwUses (match og with
      | some g => ioReplaceMany w g .out
          (((enumFrom 0 (w.gr g).outputs).filter (fun p => p.2 = v)).map (·.1))
          (List.replicate (w.gr g).outputs.length r)
      | none => w) v r)

/-- a const tensor for a value (`Value.const_value = tensor`); tensors are only named.  A `locked`
tensor is one whose `name` cannot be assigned (a `TensorProtocol` implementation with a read-only
name): `Value.name = …` then raises while renaming the backing tensor (`_core.py:3252-3254`), before
anything was changed -/
def setConst (w : World) (v : Nat) (locked : Bool) : World × Outcome :=
  let t := w.tensors.length
  guardOp false "" w (({ w with tensors := lset w.tensors t none, locked := lset w.locked t locked }).setVal v
    { w.val v with const := some t })

/-! ## Node fields outside the use-def links  (`_core.py:2352-2399`, `_graph_containers.py:398-411`) -/

/-- `Node.name = s` (`_core.py:2357-2362`): the owning graph's authority learns the name -/
def setNodeName (w : World) (n : Nat) (s : Option String) : World × Outcome :=
  guardOp false "" w <|
    let w1 := w.setNode n { w.node n with name := s }
    match (w.node n).graph, s with
    | some g, some nm => w1.setGr g { w1.gr g with nNames := addName (w1.gr g).nNames nm }
    | _, _ => w1

/-- `Node.op_type = s` (`_core.py:2397-2399`): read by the name authority when it names the node -/
def setOpType (w : World) (n : Nat) (s : String) : World × Outcome :=
  guardOp false "" w (w.setNode n { w.node n with opType := s })

/-- `Value.const_value = None` (`_core.py:3403-3413`) -/
def clearConst (w : World) (v : Nat) : World × Outcome :=
  guardOp false "" w (w.setVal v { w.val v with const := none })

/-- replace the attribute dict of node `n` — the only write any attribute edit performs -/
def setAttrs (w : World) (n : Nat) (as : List (String × List Nat)) : World :=
  w.setNode n { w.node n with attrs := as }

/-- dict assignment: an existing key keeps its position -/
def attrPut (l : List (String × List Nat)) (k : String) (gs : List Nat) : List (String × List Nat) :=
  if l.any (fun p => p.1 = k) then l.map (fun p => if p.1 = k then (k, gs) else p) else l ++ [(k, gs)]

/-- `{attr.name: attr for attr in attrs}` (`Attributes.__init__`) -/
def initAttrs (as : List (String × List Nat)) : List (String × List Nat) :=
  as.foldl (fun d p => attrPut d p.1 p.2) []

/-- `node.attributes[key] = attr`, `.add(attr)`, `.update({key: attr})`, `.setdefault(key, attr)` on an absent
key (`_graph_containers.py:405-415`); `gs` = the graphs the attribute holds -/
def attrSet (w : World) (n : Nat) (key : String) (gs : List Nat) : World × Outcome :=
  guardOp false "" w (setAttrs w n (attrPut (w.node n).attrs key gs))

/-- `del node.attributes[key]` / `.pop(key)` (`strict`: `KeyError` for an absent key) and `.pop(key, None)` -/
def attrDel (w : World) (n : Nat) (key : String) (strict : Bool) : World × Outcome :=
  guardOp (strict && !(w.node n).attrs.any (fun p => p.1 = key)) "KeyError" w
    (setAttrs w n ((w.node n).attrs.filter (fun p => p.1 ≠ key)))

/-- `node.attributes.clear()` -/
def attrClear (w : World) (n : Nat) : World × Outcome := guardOp false "" w (setAttrs w n [])

/-- the end of `Node(…, attributes=…)`: the attribute dict of the node that was just created -/
def withAttrs (r : World × Outcome) (n : Nat) (as : List (String × List Nat)) : World × Outcome :=
  match r.2 with
  | .ok => (setAttrs r.1 n (initAttrs as), .ok)
  | .raised _ => r

/-! ## `Graph.sort()` with C12's sort model  (`_core.py:4073-4181`, `traversal.py:64-110`) -/

/-- what `Graph.sort` reads from the inputs of a node: the producing node of each input -/
def inputProducers (w : World) (n : Nat) : List (Option Nat) :=
  (w.node n).inputs.map (fun o => o.bind (fun v => (w.val v).producer))

/-- the node `n` with the graphs its attributes hold (in `attributes.values()` order), nested `fuel` levels deep -/
def treeNode (w : World) : Nat → Nat → Sort.MNode
  | 0, n => .mk n (inputProducers w n) []
  | fuel + 1, n =>
    .mk n (inputProducers w n)
      (((w.node n).attrs.flatMap (fun p => p.2)).map (fun g => (g, (w.gr g).nodes.map (treeNode w fuel))))

/-- the object tree `RecursiveGraphIterator(graph)` walks, in the encoding of `Model/Sort.lean`.  A nest deeper
than the number of graphs would repeat a graph on a path (the library's traversal does not terminate on such a
nest; it is outside the alphabet), so `graphs.length` levels are all there is. -/
def treeOf (w : World) (g : Nat) : Sort.MGraph :=
  (g, (w.gr g).nodes.map (treeNode w w.graphs.length))

/-- `Graph.sort()`: C12's `sortModel` decides between `ValueError` (cycle; shared graph object) and the new
order of every graph of the nest; then every node of every graph is checked (`_check_node_can_be_added`,
`_core.py:4174-4176`) and the graphs are re-extended one by one (`_core.py:4179-4181`) -/
def graphSort (w : World) (g : Nat) : World × Outcome :=
  match Sort.sortModel (treeOf w g) with
  | none => (w, .raised "ValueError")
  | some orders => guardOp (sortBad w orders) "ValueError|AttributeError" w (sortApply w orders)

/-! ## The operation alphabet -/

inductive Op where
  | newValue (name : Option String)
  | setConst (v : Nat) (locked : Bool)
  | newNode (opType : String) (name : Option String) (inputs : List (Option Nat))
      (numOutputs : Option Int) (outputs : Option (List Nat)) (graph : Option Nat)
  | newGraph (inputs outputs nodes inits : List Nat)
  | replaceInput (n : Nat) (idx : Int) (v : Option Nat)
  | resizeInputs (n : Nat) (k : Int)
  | resizeOutputs (n : Nat) (k : Int)
  | rauw (v r : Nat) (rgo : Bool)
  | io (g : Nat) (k : IOKind) (m : IOMut)
  | init (g : Nat) (m : InitMut)
  | setName (v : Nat) (s : Option String)
  | append (g n : Nat)
  | extend (g : Nat) (ns : List Nat)
  | insertAfter (g a : Nat) (ns : List Nat)
  | insertBefore (g a : Nat) (ns : List Nat)
  | remove (g : Nat) (ns : List Nat) (safe : Bool)
  | sortOk (orders : List (Nat × List Nat))
  | sortCycle
  /-- an edit of a node's attributes that leaves the attribute dict as it is (kept from round 1; the real
  edits are `attrSet` / `attrDel` / `attrClear` below) -/
  | attrEdit
  /-- `Node(…, attributes=[…])`: `newNode` plus the attribute dict the node is created with -/
  | newNodeAttrs (opType : String) (name : Option String) (inputs : List (Option Nat))
      (numOutputs : Option Int) (outputs : Option (List Nat)) (graph : Option Nat)
      (attrs : List (String × List Nat))
  /-- `Graph.sort()` / `Function.sort()` decided by the model itself (C12's `sortModel` on `treeOf`) -/
  | sort (g : Nat)
  | setNodeName (n : Nat) (s : Option String)
  | setOpType (n : Nat) (s : String)
  | clearConst (v : Nat)
  /-- edits of a node's attribute dict: `attrs` is the only field they write (`C01_attr_frame`) -/
  | attrSet (n : Nat) (key : String) (gs : List Nat)
  | attrDel (n : Nat) (key : String) (strict : Bool)
  | attrClear (n : Nat)
  deriving Repr

def step (w : World) : Op → World × Outcome
  | .newValue name => newValue w name
  | .setConst v locked => setConst w v locked
  | .newNode opType name inputs numOutputs outputs graph => newNode w opType name inputs numOutputs outputs graph
  | .newGraph inputs outputs nodes inits => newGraph w inputs outputs nodes inits
  | .replaceInput n idx v => replaceInput w n idx v
  | .resizeInputs n k => resizeInputs w n k
  | .resizeOutputs n k => resizeOutputs w n k
  | .rauw v r rgo => rauw w v r rgo
  | .io g k m => ioMut w g k m
  | .init g m => initMut w g m
  | .setName v s => setName w v s
  | .append g n => graphAppend w g n
  | .extend g ns => graphExtend w g ns
  | .insertAfter g a ns => graphInsertAfter w g a ns
  | .insertBefore g a ns => graphInsertBefore w g a ns
  | .remove g ns safe => graphRemove w g ns safe
  | .sortOk orders => guardOp (sortBad w orders) "model" w (sortApply w orders)
  | .sortCycle => guardOp true "ValueError" w w
  | .attrEdit => guardOp false "" w w
  | .newNodeAttrs opType name inputs numOutputs outputs graph attrs =>
    withAttrs (newNode w opType name inputs numOutputs outputs graph) w.nodes.length attrs
  | .sort g => graphSort w g
  | .setNodeName n s => setNodeName w n s
  | .setOpType n s => setOpType w n s
  | .clearConst v => clearConst w v
  | .attrSet n key gs => attrSet w n key gs
  | .attrDel n key strict => attrDel w n key strict
  | .attrClear n => attrClear w n

/-! ## Composite editing calls  (`_convenience/__init__.py:281-548`) -/

/-- sequencing with early exit: the state reached when a later call raises is kept (as in Python) -/
def andThen (r : World × Outcome) (f : World → World × Outcome) : World × Outcome :=
  match r.2 with
  | .ok => f r.1
  | .raised _ => r

/-- `convenience.replace_all_uses_with(values, replacements, …)`: one
`Value.replace_all_uses_with` per pair (`_convenience/__init__.py:354-361`); pairs before a rejected
one stay applied -/
def rauwSeq (w : World) (rgo : Bool) : List (Nat × Nat) → World × Outcome
  | [] => (w, .ok)
  | (v, r) :: rest => andThen (rauw w v r rgo) (fun w1 => rauwSeq w1 rgo rest)

def rauwMany (w : World) (vs rs : List Nat) (rgo : Bool) : World × Outcome :=
  if vs.length ≠ rs.length then (w, .raised "ValueError") else rauwSeq w rgo (vs.zip rs)

/-- the up-front check of proposed fix D82 (`proposed_fixes/D82.diff`): a pair whose value is a graph
output is rejected when graph outputs are not to be replaced or the owning graph does not accept the
replacement — evaluated on the state before the call -/
def rauwManyBad (w : World) (rgo : Bool) (ps : List (Nat × Nat)) : Bool :=
  ps.any (fun p => (w.val p.1).isOut && (match (w.val p.1).graph with
    | some g => !rgo || !checkIO w g .out p.2
    | none => true))

/-- `convenience.replace_all_uses_with` with the D82 check in front.  NOT what `stepConv` uses while
the code is unfixed; to follow the fix, make `stepConv (.rauwMany …)` call this function. -/
def rauwManyChecked (w : World) (vs rs : List Nat) (rgo : Bool) : World × Outcome :=
  if vs.length ≠ rs.length then (w, .raised "ValueError")
  else if rauwManyBad w rgo (vs.zip rs) then (w, .raised "ValueError")
  else rauwSeq w rgo (vs.zip rs)

/-- `convenience.replace_all_uses_with` with the exact up-front check of `proposed_fixes/D82-exact.diff`: every
pair is checked against the ownership the pairs before it will have produced (the code keeps a simulated table
`value -> (is graph output, owning graph)`; the model runs the sequential loop as a dry run), then the loop runs.
NOT what `stepConv (.rauwMany …)` does while the code is unfixed; the driver takes it for `"exact": true`, which the
harness sends when a probe of the real function finds it all-or-nothing. -/
def rauwManyExact (w : World) (vs rs : List Nat) (rgo : Bool) : World × Outcome :=
  if vs.length ≠ rs.length then (w, .raised "ValueError")
  else guardOp (decide ((rauwSeq w rgo (vs.zip rs)).2 ≠ .ok)) "ValueError" w (rauwSeq w rgo (vs.zip rs)).1

/-- first target per value; `none` when one value is given two different targets
(`_convenience/__init__.py:391-406`) -/
def dedupPairs : List (Nat × String) → List (Nat × String) → Option (List (Nat × String))
  | acc, [] => some acc
  | acc, (v, n) :: rest =>
    match acc.find? (fun p => p.1 = v) with
    | some p => if p.2 = n then dedupPairs acc rest else none
    | none => dedupPairs (acc ++ [(v, n)]) rest

/-- the initializer part of the validation of `rename_values` (`_convenience/__init__.py:408-441`):
empty target, two initializers of one graph with the same target, or a target that is the key of an
initializer outside the renamed set -/
def renameBad (w : World) (ips : List (Nat × String)) : Bool :=
  ips.any (fun p =>
    let g := (w.val p.1).graph
    p.2 = "" ||
    ips.any (fun q => q.1 ≠ p.1 && q.2 = p.2 && (w.val q.1).graph = g) ||
    (match g with
      | some gi =>
        match lookupInit (w.gr gi).inits p.2 with
        | some e => e ≠ p.1 && !(ips.any (fun q => q.1 = e && (w.val q.1).graph = g))
        | none => false
      | none => true))

def setNameIfPlain (w : World) (v : Nat) (s : Option String) : World :=
  if (w.val v).name = s then w else if (w.val v).isInit then bump w else setNamePlain w v s

/-- phase 1 of `rename_values`: a renamed initializer leaves its mapping (`graph.initializers.pop(value.name)`) -/
def renameDelStep (w : World) (p : Nat × String) : World :=
  match (w.val p.1).graph, (w.val p.1).name with
  | some g, some old => initDel w g old
  | _, _ => bump w

/-- phase 3: it is put back under its new name (`graph.initializers.add(value)`) -/
def renamePutStep (gOf : Nat → Option Nat) (w : World) (p : Nat × String) : World :=
  match gOf p.1 with
  | some g => initPut w g p.2 p.1
  | none => bump w

/-- `convenience.rename_values(values, names)`: validate the whole assignment (a backing tensor that
refuses its new name is part of it: the code renames the tensors first and restores them on failure),
take the renamed initializers out of their mappings, rename, put them back
(`_convenience/__init__.py:364-470`) -/
def renameValues (w : World) (vs : List Nat) (names : List String) : World × Outcome :=
  if vs.length ≠ names.length then (w, .raised "ValueError") else
  match dedupPairs [] (vs.zip names) with
  | none => (w, .raised "ValueError")
  | some pairs =>
    let ips := pairs.filter (fun p => (w.val p.1).isInit)
    guardOp (renameBad w ips ||
        pairs.any (fun p => constLocked w p.1 && decide ((w.val p.1).name ≠ some p.2))) "ValueError|AttributeError" w <|
      let w1 := ips.foldl renameDelStep w
      let w2 := pairs.foldl (fun w p => setNameIfPlain w p.1 (some p.2)) w1
      ips.foldl (renamePutStep (fun v => (w.val v).graph)) w2

/-- `convenience.replace_nodes_and_values` (`_convenience/__init__.py:512-548`): copy const tensor and
name onto the new values, reconnect users (graph outputs included), insert the new nodes, remove the
old ones safely — a plain sequence of public calls, not atomic -/
def copyInfo (w : World) : List (Nat × Nat) → World × Outcome
  | [] => (w, .ok)
  | (o, n) :: rest =>
    let w1 := match (w.val o).const with
      | some t => w.setVal n { w.val n with const := some t }
      | none => w
    let r := match (w1.val o).name with
      | some s => setName w1 n (some s)
      | none => (w1, .ok)
    andThen r (fun w2 => copyInfo w2 rest)

def replaceNodesAndValues (w : World) (g ip : Nat) (oldNodes newNodes oldVals newVals : List Nat) :
    World × Outcome :=
  andThen (copyInfo w (oldVals.zip newVals)) fun w1 =>
  andThen (rauwMany w1 oldVals newVals true) fun w2 =>
  andThen (graphInsertAfter w2 g ip newNodes) fun w3 =>
  graphRemove w3 g oldNodes true

/-- `Tape.initializer(tensor, name)` (`_tape.py:196-207`): `name or tensor.name`, a new value backed by the
tensor, then (tape bound to a graph) `graph.register_initializer(value)` — a rejected registration leaves the
new value behind (it is in `tape.initializers`) -/
def tapeInitializer (w : World) (g : Option Nat) (name tname : Option String) (locked : Bool) :
    World × Outcome :=
  match (if falsy name then tname else name) with
  | none => (w, .raised "ValueError")
  | some nm =>
    let v := w.vals.length
    let t := w.tensors.length
    let w1 := ({ w with tensors := lset w.tensors t tname, locked := lset w.locked t locked }).setVal v
      { name := some nm, const := some t }
    match g with
    | none => (w1, .ok)
    | some gi => initMut w1 gi (.register v)

/-- `value.name = name` for each pair, stopping at the first rejected one -/
def setNameSeq (w : World) : List (Nat × String) → World × Outcome
  | [] => (w, .ok)
  | (v, s) :: rest => andThen (setName w v (some s)) (fun w1 => setNameSeq w1 rest)

/-- `Builder(graph).<OpType>(*inputs, _outputs=k | [names])` (`_tape.py:213-242`): `Tape.op` / `op_multi_out`
(a `Node(…, num_outputs=k, graph=graph)`) and then one `Value.name = …` per requested output name -/
def builderNode (w : World) (g : Option Nat) (opType : String) (inputs : List (Option Nat)) (k : Nat)
    (names : Option (List String)) : World × Outcome :=
  andThen (newNode w opType none inputs (some (k : Int)) none g) fun w1 =>
    match names with
    | none => (w1, .ok)
    | some ns => setNameSeq w1 ((w1.node w.nodes.length).outputs.zip ns)

/-- `replace_nodes_and_values` on top of the exact multi-pair check (proposed fix D82-exact) -/
def replaceNodesAndValuesExact (w : World) (g ip : Nat) (oldNodes newNodes oldVals newVals : List Nat) :
    World × Outcome :=
  andThen (copyInfo w (oldVals.zip newVals)) fun w1 =>
  andThen (rauwManyExact w1 oldVals newVals true) fun w2 =>
  andThen (graphInsertAfter w2 g ip newNodes) fun w3 =>
  graphRemove w3 g oldNodes true

inductive ConvOp where
  | tapeInitializer (g : Option Nat) (name tname : Option String) (locked : Bool)
  | builderNode (g : Option Nat) (opType : String) (inputs : List (Option Nat)) (k : Nat)
      (names : Option (List String))
  | rauwMany (vs rs : List Nat) (rgo : Bool)
  | rauwManyExact (vs rs : List Nat) (rgo : Bool)
  | renameValues (vs : List Nat) (names : List String)
  | replaceNodesAndValues (g ip : Nat) (oldNodes newNodes oldVals newVals : List Nat)
  | replaceNodesAndValuesExact (g ip : Nat) (oldNodes newNodes oldVals newVals : List Nat)
  deriving Repr

def stepConv (w : World) : ConvOp → World × Outcome
  | .tapeInitializer g name tname locked => tapeInitializer w g name tname locked
  | .builderNode g opType inputs k names => builderNode w g opType inputs k names
  | .rauwMany vs rs rgo => rauwMany w vs rs rgo
  | .rauwManyExact vs rs rgo => rauwManyExact w vs rs rgo
  | .renameValues vs names => renameValues w vs names
  | .replaceNodesAndValues g ip oldNodes newNodes oldVals newVals =>
    replaceNodesAndValues w g ip oldNodes newNodes oldVals newVals
  | .replaceNodesAndValuesExact g ip oldNodes newNodes oldVals newVals =>
    replaceNodesAndValuesExact w g ip oldNodes newNodes oldVals newVals

/-- the whole alphabet: single calls and composite calls -/
inductive AnyOp where
  | one (op : Op)
  | conv (op : ConvOp)
  deriving Repr

def stepAny (w : World) : AnyOp → World × Outcome
  | .one op => step w op
  | .conv op => stepConv w op

def runAny (ops : List AnyOp) : World := ops.foldl (fun w o => (stepAny w o).1) World.empty

def run (ops : List Op) : World := ops.foldl (fun w o => (step w o).1) World.empty

end IrVerif.Kernel

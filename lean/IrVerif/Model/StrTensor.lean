/-
Model of STRING tensors (property C04, deepening round): `_core.StringTensor` (`_core.py`
1056-1147), `serde.TensorProtoTensor` over a STRING proto (`serde.py` 364-411, 490-502),
`_core.LazyTensor` around either (`_core.py` 1150-1267), `ir.tensor` on text / bytes data
(`_convenience/_constructors.py` 26-57, 135-137) and `serialize_tensor_into` /
`deserialize_tensor` for them (`serde.py` 1184-1194, 2199-2205).

An element is a byte string (`List Nat`); trailing NUL bytes are significant (after D48 / D141 the
code keeps the elements in object arrays, never in fixed-width `S` arrays).  A string tensor has
NO byte form: `tobytes()` / `tofile()` raise in every representation.  Core Lean only.
-/
import IrVerif.Model.TensorRepr
namespace IrVerif.StrTensor
open IrVerif.TensorRepr

abbrev Elem := List Nat

/-- an element handed to `ir.tensor`: `bytes`, or `str` (encoded as UTF-8 by `_maybe_string_tensor`) -/
inductive PyElem where
  | bytes (b : Elem)
  | text (s : String)
  deriving Repr

/-- `str.encode("utf-8")` -/
def utf8 (s : String) : Elem := s.toUTF8.toList.map (·.toNat)

def PyElem.encode : PyElem → Elem
  | .bytes b => b
  | .text s => utf8 s

inductive SRep where
  /-- `StringTensor(seq, shape=dims)` over a `Sequence[bytes]` (also what `deserialize_tensor` builds
      from `proto.string_data`) -/
  | seq (vals : List Elem) (dims : List Nat)
  /-- `StringTensor(arr)` over an object ndarray of shape `dims` (numpy guarantees the size) -/
  | objArr (vals : List Elem) (dims : List Nat)
  /-- `TensorProtoTensor(proto)` with `data_type = STRING`; `raw`: `HasField("raw_data")` -/
  | proto (vals : List Elem) (dims : List Nat) (raw : Bool)
  /-- `LazyTensor(lambda: inner, dtype=STRING, shape=dims)` -/
  | lazy (inner : SRep) (dims : List Nat)
  deriving Repr

namespace SRep

/-- every one reports `DataType.STRING` -/
def dtype : SRep → DType
  | _ => .string

def shape : SRep → List Nat
  | seq _ dims => dims
  | objArr _ dims => dims
  | proto _ dims _ => dims
  | lazy _ dims => dims

/-- `np.array(seq, dtype=object).reshape(shape)` -/
def reshapeObj (vals : List Elem) (dims : List Nat) : R (List Elem) :=
  if vals.length = prod dims then .ok vals else .error "ValueError"

/-- the elements of `numpy()` in C order -/
def numpy : SRep → R (List Elem)
  | seq vals dims => reshapeObj vals dims
  | objArr vals _ => .ok vals
  | proto vals dims raw =>
    -- with raw_data present the code asks `dtype.bitwidth` first, which STRING does not have
    if raw then .error "TypeError" else reshapeObj vals dims
  | lazy inner _ => inner.numpy

/-- `string_data()`: only `StringTensor` has it (no shape check for a sequence) -/
def stringData : SRep → R (List Elem)
  | seq vals _ => .ok vals
  | objArr vals _ => .ok vals
  | proto _ _ _ => .error "AttributeError"
  | lazy _ _ => .error "AttributeError"

/-- `nbytes`: `StringTensor` sums the element lengths; the others inherit `TensorBase.nbytes`,
    which needs `dtype.itemsize` -/
def nbytes : SRep → R Nat
  | seq vals _ => .ok (vals.map List.length).sum
  | objArr vals _ => .ok (vals.map List.length).sum
  | proto _ _ _ => .error "TypeError"
  | lazy _ _ => .error "TypeError"

/-- `tobytes()`: raises everywhere -/
def tobytes : SRep → R (List Nat)
  | seq _ _ => .error "ValueError"
  | objArr _ _ => .error "ValueError"
  | proto _ _ _ => .error "ValueError"
  | lazy inner _ => inner.tobytes

/-- `tofile(f)`: `TensorBase.tofile` writes `self.tobytes()`; `LazyTensor.tofile` delegates -/
def tofile : SRep → R (List Nat)
  | lazy inner _ => inner.tofile
  | r => r.tobytes

end SRep

/-- the string part of a `TensorProto` -/
structure SProto where
  dims : List Nat
  stringData : List Elem
  raw : Bool := false
  deriving Repr

/-- `serialize_tensor(t)`: a `TensorProtoTensor` is copied, a `StringTensor` contributes
    `string_data()`, any other STRING tensor the flattened `numpy()` -/
def serialize : SRep → R SProto
  | .proto vals dims raw => .ok { dims := dims, stringData := vals, raw := raw }
  | .seq vals dims => .ok { dims := dims, stringData := vals }
  | .objArr vals dims => .ok { dims := dims, stringData := vals }
  | .lazy inner dims =>
    match inner.numpy with
    | .ok vals => .ok { dims := dims, stringData := vals }
    | .error e => .error e

/-- `deserialize_tensor(proto)` for `data_type = STRING` -/
def deserialize (p : SProto) : SRep := .seq p.stringData p.dims

/-- the outcome of `ir.tensor(value, dtype)` for text / bytes data given as its flattened elements
    and the shape numpy infers; `dtypeString`: `dtype=DataType.STRING` was passed (otherwise none) -/
inductive PyResult where
  | str (r : SRep)
  /-- `ValueError`: an empty top-level sequence without a dtype -/
  | valueError
  /-- not a string tensor: nested empty sequences without a dtype become a numeric tensor -/
  | numeric
  deriving Repr

def pyTensor (elems : List PyElem) (dims : List Nat) (dtypeString : Bool) : PyResult :=
  if elems = [] ∧ !dtypeString then
    (if dims.head? = some 0 then .valueError else .numeric)
  else .str (.objArr (elems.map PyElem.encode) dims)

end IrVerif.StrTensor

/-
Model of STRIDED array memory behind an array-backed tensor (property C04, deepening round).

`_core.Tensor` keeps whatever array(-compatible) object it is given (`_core.py` 470-539) and
`tensor_adapters.TorchTensor` keeps the torch tensor; nothing is copied.  The bytes are produced
late, by `_create_np_array_for_byte_representation` (`_core.py` 408-434): `array = tensor.numpy()`
(the array as it lies in memory: any strides, any storage offset), then for the 4/2-bit types
`pack_4bitx2` / `pack_2bitx4` (`_type_casting.py` 16-27, 52-66: `array.ravel().view(np.uint8)`),
otherwise the `itemsize` assert, then `astype('<')` for a big-endian dtype, and finally
`array.tobytes()` (`Tensor.tobytes`, `_core.py` 592-600) or `array.tofile(file)`.
`TorchTensor.tobytes` (`tensor_adapters.py` 180-205) does `tensor.contiguous()` and reads
`element_size * numel` bytes at `data_ptr()`.  Every one of `ravel`, `astype`, `tobytes`, `tofile`,
`contiguous` walks the array in C (row-major) order of its LOGICAL indices; that walk is `gather`.

An array is `(shape, strides in bytes, byte offset of element (0,..,0), storage bytes, itemsize,
byte order)`; strides may be negative, zero (broadcast) or overlapping, dims may be 0.  Until this
round the harness reduced such arrays to logical order itself before the model saw them; now the
driver receives the raw memory and the model does the reduction.  Core Lean only.
-/
import IrVerif.Model.TensorRepr
namespace IrVerif.Strided
open IrVerif.Pack IrVerif.TensorRepr

structure Arr where
  shape : List Nat
  /-- bytes per step along each axis (`ndarray.strides`; torch strides times the element size) -/
  strides : List Int
  /-- byte offset of the element with index `(0, ..., 0)` inside `storage` -/
  offset : Nat
  storage : List Nat
  itemsize : Nat
  /-- the dtype has an explicit big-endian byte order (`'>f4'`, ...) -/
  bigEndian : Bool := false
  /-- a complex dtype: a byte swap treats the real and the imaginary part separately -/
  complex : Bool := false
  deriving Repr

/-- the item bytes at byte address `p` of the storage -/
def item (storage : List Nat) (isz : Nat) (p : Int) : List Nat :=
  if p < 0 then [] else (storage.drop p.toNat).take isz

/-- the C-order walk numpy / torch perform when they copy a strided array: nested loops over the
    axes, outermost first, the address advancing by the axis' stride -/
def gather (storage : List Nat) (isz : Nat) : List Nat → List Int → Int → List (List Nat)
  | [], _, p => [item storage isz p]
  | _ :: _, [], _ => []
  | n :: ns, st :: sts, p => (List.range n).flatMap (fun (i : Nat) => gather storage isz ns sts (p + (i : Int) * st))

/-- the items of the array in C order of the logical indices (`np.ascontiguousarray(a)`) -/
def Arr.items (a : Arr) : List (List Nat) := gather a.storage a.itemsize a.shape a.strides a.offset

/-- every item lies inside the storage (numpy and torch refuse to construct anything else) -/
def Arr.inBounds (a : Arr) : Bool :=
  a.strides.length == a.shape.length && a.items.all (fun it => it.length == a.itemsize)

/-! ### the bounds checks of the constructors

`np.ndarray(shape, dtype, buffer, offset, strides)` (numpy `array_new` -> `PyArray_CheckStrides` ->
`offset_bounds_from_strides`) and `torch.as_strided` (`checkInBoundsForStorage`) refuse a
description whose extreme corners fall outside the buffer. -/

/-- numpy's `offset_bounds_from_strides` without the final `upper += itemsize`: the sum of the
    negative and of the positive axis extents `stride_i * (shape_i - 1)` -/
def spanBounds : List Nat → List Int → Int × Int
  | n :: ns, st :: sts =>
    let r := spanBounds ns sts
    let ext := st * ((n : Int) - 1)
    if ext > 0 then (r.1, r.2 + ext) else (r.1 + ext, r.2)
  | _, _ => (0, 0)

/-- the lowest and the highest item address both lie inside the storage -/
def Arr.spanOk (a : Arr) : Bool :=
  let r := spanBounds a.shape a.strides
  decide (0 ≤ (a.offset : Int) + r.1 ∧ (a.offset : Int) + r.2 + a.itemsize ≤ a.storage.length)

/-- `np.ndarray(shape, dtype, buffer=storage, offset=offset, strides=strides)` is accepted:
    `len(strides) == len(shape)` and `PyArray_CheckStrides(itemsize, nd, numbytes = len(buffer),
    offset, dims, strides)` -- whose `if (numbytes == 0) numbytes = prod(dims) * itemsize` makes an
    EMPTY buffer pass for the array's own nominal size; a zero-size array has the bounds `(0, 0)`.
    For rank 0 the empty `strides` tuple counts as "no strides" and the plain size check
    `offset + itemsize <= len(buffer)` applies. -/
def Arr.npCheck (a : Arr) : Bool :=
  let numbytes : Int := if a.storage.length = 0 then (prod a.shape * a.itemsize : Nat) else a.storage.length
  let r := spanBounds a.shape a.strides
  let lohi : Int × Int := if a.shape.any (· == 0) then (0, 0) else (r.1, r.2 + a.itemsize)
  a.strides.length == a.shape.length &&
    (if a.shape = [] then decide (a.offset + a.itemsize ≤ a.storage.length)
     else decide (lohi.2 ≤ numbytes - a.offset ∧ -(a.offset : Int) ≤ lohi.1))

/-- `torch.as_strided(flat, shape, strides, offset)` is accepted (in bytes): no negative stride, and
    unless the view is empty the last item ends inside the storage -/
def Arr.torchCheck (a : Arr) : Bool :=
  a.strides.length == a.shape.length && a.strides.all (0 ≤ ·) &&
    (a.shape.any (· == 0) ||
      decide ((a.offset : Int) + (spanBounds a.shape a.strides).2 + a.itemsize ≤ a.storage.length))

/-- the little-endian bytes of the VALUE an item holds (`astype(dtype.newbyteorder('<'))`) -/
def leItem (be cplx : Bool) (it : List Nat) : List Nat :=
  if !be then it
  else if cplx then (it.take (it.length / 2)).reverse ++ (it.drop (it.length / 2)).reverse
  else it.reverse

/-- the element values as bit patterns, in C order: the storage units of `numpy()` -/
def Arr.units (a : Arr) : List Nat := a.items.map (fun it => ofLeBytes (leItem a.bigEndian a.complex it))

/-- `Tensor.tobytes()` over such an array, step by step as `_create_np_array_for_byte_representation`
    does it; `nd`: the holder is a real `ndarray` (whose big-endian dtype the constructor rejects,
    `_core.py` 517-531) -/
def Arr.tobytes (d : DType) (a : Arr) (nd : Bool) : R (List Nat) :=
  if nd && a.bigEndian then .error "TypeError"
  else if d.bytePack4 then .ok (pack4 a.units)          -- array.ravel().view(np.uint8), packed
  else if d.bytePack2 then .ok (pack2 a.units)
  else match d.bitwidth with
    | none => .error "TypeError"
    | some bw =>
      if bw ≠ 8 * a.itemsize then .error "AssertionError"
      else .ok (a.items.flatMap (leItem a.bigEndian a.complex))   -- astype('<'), tobytes() in C order

/-- `TorchTensor.tobytes()` over a strided torch tensor: `contiguous()` then the raw memory, except
    the 2-bit types, which go through `Tensor.tobytes` -/
def Arr.torchTobytes (d : DType) (a : Arr) : R (List Nat) :=
  if !d.torchMapped then .error "TypeError"
  else if d.bytePack2 then .ok (pack2 a.units)
  else match d.bitwidth with
    | none => .error "TypeError"
    | some _ => .ok a.items.flatten

/-- the representation the strided array denotes in the representation model: the array of its
    units in logical order (a big-endian real ndarray keeps its memory form, which is rejected) -/
def Arr.toRep (d : DType) (a : Arr) (nd : Bool) : Rep :=
  if nd && a.bigEndian then .arrayMem d a.shape a.items.flatten true true
  else .array d a.shape a.units

def Arr.toTorchRep (d : DType) (a : Arr) : Rep := .torch d a.shape a.units

end IrVerif.Strided

/-
C10 — executable model of the POSIX path algebra used by
`ExternalTensor._check_path_containment` (src/onnx_ir/_core.py:760-825), of the reads guarded by
it (`_load` 827-841, `tofile` 931-944) and of `load()`'s base-directory derivation
(src/onnx_ir/_io.py:32-41).  Core Lean only.  Line numbers are those of /repo when this was
written (they drift with unrelated fixes; the function names are the stable anchors).

Strings are `List Char` (`Str`); the separator is the character '/' (POSIX; `os.path.normcase`
is the identity there).  The functions transcribe CPython 3.12 `posixpath`:
`join` (posixpath.py:71-92), `split`/`dirname` (100-109, 179-187), `splitroot` (138-164),
`normpath` (377-405; the C accelerator `_path_normpath` computes the same function on strings
without NUL), `abspath` (416-425), `realpath`/`_joinrealpath` (431-500).
-/
namespace IrVerif.Path

abbrev Str := List Char

def DOT : Str := ['.']
def DOTDOT : Str := ['.', '.']

/-- Python `s.split('/')` : always at least one piece. -/
def splitSep : Str → List Str
  | [] => [[]]
  | c :: cs =>
    match splitSep cs with
    | [] => [[]]
    | h :: t => if c = '/' then [] :: h :: t else (c :: h) :: t

/-- Python `'/'.join(parts)`. -/
def joinSep : List Str → Str
  | [] => []
  | [a] => a
  | a :: b :: t => a ++ '/' :: joinSep (b :: t)

/-- `posixpath.isabs` (60-64): starts with the separator. -/
def isabs : Str → Bool
  | c :: _ => c = '/'
  | [] => false

def endsWithSep (p : Str) : Bool :=
  match p.getLast? with
  | some c => c = '/'
  | none => false

/-- `posixpath.join(a, b)` (71-92), two arguments. -/
def pjoin (a b : Str) : Str :=
  if isabs b then b
  else if a = [] ∨ endsWithSep a then a ++ b
  else a ++ '/' :: b

/-- `posixpath.splitroot` (138-164) without the (always empty) drive: number of initial
slashes kept (0, 1 or 2) and the tail. -/
def splitroot (p : Str) : Nat × Str :=
  match p with
  | [] => (0, p)
  | c1 :: r1 =>
    if c1 = '/' then
      match r1 with
      | [] => (1, r1)
      | c2 :: r2 =>
        if c2 = '/' then
          match r2 with
          | [] => (2, r2)
          | c3 :: _ => if c3 = '/' then (1, r1) else (2, r2)
        else (1, r1)
    else (0, p)

/-- One iteration of the `for comp in comps` loop of `normpath` (395-402); `new_comps` is kept
as a stack (last element first). -/
def normStep (rooted : Bool) (stack : List Str) (comp : Str) : List Str :=
  if comp = [] ∨ comp = DOT then stack
  else if comp ≠ DOTDOT ∨ (rooted = false ∧ stack = []) ∨ stack.head? = some DOTDOT then
    comp :: stack
  else stack.tail

/-- `posixpath.normpath` (377-405). -/
def normpath (p : Str) : Str :=
  if p = [] then DOT
  else
    let rt := splitroot p
    let stack := (splitSep rt.2).foldl (normStep (rt.1 != 0)) []
    let body := List.replicate rt.1 '/' ++ joinSep stack.reverse
    if body = [] then DOT else body

/-- `posixpath.abspath` (416-425) with `os.getcwd()` passed explicitly. -/
def abspath (cwd p : Str) : Str :=
  normpath (if isabs p then p else pjoin cwd p)

def rstripSep (p : Str) : Str := (p.reverse.dropWhile (· = '/')).reverse

/-- `p[:p.rfind('/')+1]`. -/
def headPart (p : Str) : Str := (p.reverse.dropWhile (· ≠ '/')).reverse

/-- `p[p.rfind('/')+1:]`. -/
def tailPart (p : Str) : Str := (p.reverse.takeWhile (· ≠ '/')).reverse

/-- `posixpath.dirname` (179-187). -/
def dirname (p : Str) : Str :=
  let head := headPart p
  if head ≠ [] ∧ head.all (· = '/') = false then rstripSep head else head

/-- `posixpath.split` (100-109). -/
def psplit (p : Str) : Str × Str := (dirname p, tailPart p)

/-- `base_abs if base_abs.endswith(os.sep) else base_abs + os.sep` (_core.py:793, 804). -/
def sepBase (b : Str) : Str := if endsWithSep b then b else b ++ ['/']

/-- `path_abs == base_abs or path_abs.startswith(sep_base)` : the negation of the raise
condition at _core.py:794 and 805 (character level). -/
def contained (base path : Str) : Bool :=
  path == base || (sepBase base).isPrefixOf path

/-- `ExternalTensor.path` (_core.py:730-733). -/
def tensorPath (base loc : Str) : Str := pjoin base loc

/-- Check 1 (_core.py:789-799): passes iff `true`. -/
def check1 (cwd base loc : Str) : Bool :=
  contained (abspath cwd base) (abspath cwd (tensorPath base loc))

/-- The non-empty pieces of a path string: its components. -/
def comps (p : Str) : List Str := (splitSep p).filter (· ≠ [])

/-- the directory part `load()` starts from: `os.path.dirname(path) or os.curdir` (_io.py:37;
D23: a bare file name has an empty dirname and gets ".") -/
def loadDir (modelPath : Str) : Str :=
  let d := dirname modelPath
  if d = [] then DOT else d

/-- `load()`'s base directory (_io.py:37-41, D23 + D181 + D183): made absolute by prefixing the
load-time working directory `cwdS` = `os.getcwd()`, without lexical normalisation:
`os.path.join(os.getcwd(), os.path.dirname(path) or os.curdir)`. -/
def loadBase (cwdS modelPath : Str) : Str := pjoin cwdS (loadDir modelPath)

/-- the derivation between D181 and D183, `os.path.abspath(dirname(path) or ".")`, kept to state
D183: `abspath` collapses "x/.." lexically, which is wrong when x is a symbolic link -/
def loadBaseAbs (cwdS modelPath : Str) : Str := abspath cwdS (loadDir modelPath)

/-- The derivation before D23 (`os.path.dirname(path)`), kept to state D23. -/
def loadBaseUnfixed (modelPath : Str) : Str := dirname modelPath

end IrVerif.Path

/-! ## File system, kernel path walk, `os.path.realpath`, the three-layer check, reads -/
namespace IrVerif.Path

/-- A location: the names from the root to an object (root = []). -/
abbrev Loc := List Str

inductive Node where
  | dir : Node
  | file (ino : Nat) : Node
  | link (target : Str) : Node
  | other (ino : Nat) : Node   -- FIFO, socket or device node: not a directory, link or regular file
  deriving Repr, DecidableEq

/-- The file system: location -> node (the root is always a directory), inode -> link count and
bytes.  Arbitrary functions: the theorems hold for every tree. -/
structure FS where
  node : Loc → Option Node
  dnlink : Loc → Nat
  nlink : Nat → Nat
  data : Nat → List Nat

def FS.get (fs : FS) (l : Loc) : Option Node := if l = [] then some Node.dir else fs.node l

/-- where resolution of a path (or of a symlink target) starts -/
def startLoc (cur : Loc) (p : Str) : Loc := if isabs p then [] else cur

/-- Kernel path walk (path_resolution(7), fs/namei.c).  `cur` is the current directory location, the
list holds the components still to be walked (the path string split at '/').  Every component (also
"" and ".") needs `cur` to be a directory (ENOTDIR otherwise); ".." moves to the parent (the root is
its own parent); a name is looked up in `cur` (ENOENT); a symbolic link is followed unless it is the
last component and `follow` is false: the components of its target are put IN FRONT of the remaining
ones and walked from the directory holding the link, or from the root when the target is absolute.
`fuel` is the number of symbolic links this ONE resolution may still follow: Linux counts every link
followed during a path resolution, nested or one after the other (`nd->total_link_count`, limit
MAXSYMLINKS = 40: the 41st link gives ELOOP); each followed link costs one. -/
def walk (fs : FS) : Nat → Loc → List Str → Bool → Option Loc
  | _, cur, [], _ => some cur
  | fuel, cur, c :: rest, follow =>
    match fs.get cur with
    | some Node.dir =>
      if c = [] ∨ c = DOT then walk fs fuel cur rest follow
      else if c = DOTDOT then walk fs fuel cur.dropLast rest follow
      else
        match fs.get (cur ++ [c]) with
        | none => none
        | some (Node.link t) =>
          if rest = [] ∧ follow = false then some (cur ++ [c])
          else
            match fuel with
            | 0 => none
            | fuel' + 1 => walk fs fuel' (startLoc cur t) (splitSep t ++ rest) follow
        | some _ => walk fs fuel (cur ++ [c]) rest follow
    | _ => none
termination_by fuel _ comps _ => (fuel, comps.length)

/-- Kernel resolution of a path string relative to the working directory `cwd` (a location).
The empty path is ENOENT. -/
def kresolve (fs : FS) (fuel : Nat) (cwd : Loc) (p : Str) (follow : Bool) : Option Loc :=
  if p = [] then none else walk fs fuel (startLoc cwd p) (splitSep p) follow

/-- `os.lstat(p)`: the node itself (symlinks not followed at the last component). -/
def lstat (fs : FS) (fuel : Nat) (cwd : Loc) (p : Str) : Option Node :=
  match kresolve fs fuel cwd p false with
  | some l => fs.get l
  | none => none

/-- `os.stat(p)` (None = OSError): (`st_nlink`, `S_ISREG(st_mode)`).  Directories report their own
link count (`dnlink`; 2 or more on most file systems). -/
def statFile (fs : FS) (fuel : Nat) (cwd : Loc) (p : Str) : Option (Nat × Bool) :=
  match kresolve fs fuel cwd p true with
  | some l =>
    match fs.get l with
    | some (Node.file i) => some (fs.nlink i, true)
    | some (Node.other i) => some (fs.nlink i, false)
    | some Node.dir => some (fs.dnlink l, false)
    | _ => none
  | none => none

/-- Linux PATH_MAX: a path string of this many bytes or more (the terminating NUL included in the
count) is refused by every system call with ENAMETOOLONG before any lookup.  Modelled at the open of
the tensor's path only (the strings `os.path.realpath` passes to `os.lstat` are built from resolved
prefixes); characters are counted as one byte each (ASCII). -/
def PATH_MAX : Nat := 4096

/-- `open(p, "rb")`: the inode the kernel reaches and whether it is a regular file
(None = OSError: missing, a directory, a loop, a path of PATH_MAX bytes or more ...).  A FIFO or device
node can be opened. -/
def openFile (fs : FS) (fuel : Nat) (cwd : Loc) (p : Str) : Option (Nat × Bool) :=
  if PATH_MAX ≤ p.length then none else
  match kresolve fs fuel cwd p true with
  | some l =>
    match fs.get l with
    | some (Node.file i) => some (i, true)
    | some (Node.other i) => some (i, false)
    | _ => none
  | none => none

/-- The `seen` dictionary of `_joinrealpath`: newest binding first. -/
abbrev Seen := List (Str × Option Str)

def Seen.find (s : Seen) (k : Str) : Option (Option Str) :=
  match s with
  | [] => none
  | (k', v) :: t => if k' = k then some v else Seen.find t k

/-- the `..` branch of `_joinrealpath` (posixpath.py:459-467) -/
def parentPath (path : Str) : Str :=
  if path ≠ [] then
    let ht := psplit path
    if ht.2 = DOTDOT then pjoin (pjoin ht.1 DOTDOT) DOTDOT else ht.1
  else DOTDOT

/-- `posixpath._joinrealpath(path, rest, strict=False, seen)` (posixpath.py:440-500) after the
`isabs(rest)` prologue; `rest` is kept as the list of its remaining '/'-separated pieces (the loop
takes them one by one with `partition`; the remaining string is their `'/'.join`).  `kfuel` is the
kernel's ELOOP bound (links followed per resolution) used by `os.lstat`; `fuel` bounds the Python recursion depth (a model
artefact: CPython's recursion limit).  Returns (path, ok, seen). -/
def joinReal (fs : FS) (kfuel : Nat) (cwd : Loc) : Nat → Str → List Str → Seen → Str × Bool × Seen
  | _, path, [], seen => (path, true, seen)
  | fuel, path, name :: rest, seen =>
    if name = [] ∨ name = DOT then joinReal fs kfuel cwd fuel path rest seen
    else if name = DOTDOT then joinReal fs kfuel cwd fuel (parentPath path) rest seen
    else
      let newpath := pjoin path name
      match lstat fs kfuel cwd newpath with
      | some (Node.link target) =>
        match Seen.find seen newpath with
        | some (some p) => joinReal fs kfuel cwd fuel p rest seen
        | some none => (pjoin newpath (joinSep rest), false, seen)
        | none =>
          match fuel with
          | 0 => (pjoin newpath (joinSep rest), false, seen)
          | fuel' + 1 =>
            let r := joinReal fs kfuel cwd fuel' (if isabs target then ['/'] else path)
              (splitSep (if isabs target then target.tail else target)) ((newpath, none) :: seen)
            if r.2.1 = false then (pjoin r.1 (joinSep rest), false, r.2.2)
            else joinReal fs kfuel cwd (fuel' + 1) r.1 rest ((newpath, some r.1) :: r.2.2)
      | _ => joinReal fs kfuel cwd fuel newpath rest seen
termination_by fuel _ rest _ => (fuel, rest.length)

/-- `os.path.realpath(filename)` (posixpath.py:431-436), non-strict. `cwdS` is `os.getcwd()`,
`cwd` the location it names. -/
def realpath (fs : FS) (kfuel fuel : Nat) (cwdS : Str) (cwd : Loc) (filename : Str) : Str :=
  let r := joinReal fs kfuel cwd fuel (if isabs filename then ['/'] else [])
    (splitSep (if isabs filename then filename.tail else filename)) []
  abspath cwdS r.1

/-- Which step of the guarded read stops it. -/
inductive Verdict where
  | skipped   -- empty base_dir: no check at all (_core.py:780-785)
  | rej1      -- check 1 raises (794-799)
  | rej2      -- check 2 raises (805-810)
  | rej3      -- check 3 raises (820-825)
  | pass
  deriving Repr, DecidableEq

/-- the string contains a NUL character: every system call on it (`os.lstat`, `os.stat`, `open`)
raises `ValueError: embedded null byte` before reaching the kernel -/
def hasNul (p : Str) : Bool := p.any (· = Char.ofNat 0)

/-- Check 2 (_core.py:802-810).  `os.path.realpath` calls `os.lstat` on every prefix that ends in an
entry name; on a string with a NUL character that call raises ValueError, which `_joinrealpath`
does not catch (it catches OSError only), so the check raises (after check 1, which is pure string
arithmetic and treats NUL as an ordinary character).  `realpath(base_dir)` is evaluated whatever the
location is, so a NUL in the base directory raises as well. -/
def check2 (fs : FS) (kfuel fuel : Nat) (cwdS : Str) (cwd : Loc) (base loc : Str) : Bool :=
  if hasNul base || hasNul loc then false
  else contained (realpath fs kfuel fuel cwdS cwd base) (realpath fs kfuel fuel cwdS cwd (tensorPath base loc))

/-- what `os.path.samestat` compares (`st_ino`, `st_dev`): the inode of a regular file, or of another
non-directory object (never equal to a regular file's); a directory is identified by its location (a directory has one name; bind mounts
are not modelled) -/
inductive StatId where
  | ino (i : Nat)
  | oth (i : Nat)
  | dir (l : Loc)
  deriving Repr, DecidableEq

/-- the identity of what `os.stat(p)` reaches (None = OSError) -/
def statId (fs : FS) (fuel : Nat) (cwd : Loc) (p : Str) : Option StatId :=
  match kresolve fs fuel cwd p true with
  | some l =>
    match fs.get l with
    | some (Node.file i) => some (StatId.ino i)
    | some (Node.other i) => some (StatId.oth i)
    | some Node.dir => some (StatId.dir l)
    | _ => none
  | none => none

/-- (D454) `for resolved in (path_real, base_real): prefix = resolved; while ...` of check 3: the walk over
the prefixes of a resolved path (`os.path.dirname` until it no longer changes).  Every prefix must be
examinable by `os.lstat` (`lst p = none`: OSError, which fails closed) and none may be a symbolic
link.  `lst` is the `os.lstat` of the model at hand (plain, with PATH_MAX, with search permissions).
`dirname` of a string that it changes is shorter, so the loop runs at most length + 1 times: the
first argument is that bound. -/
def noLinkPrefix (lst : Str → Option Node) : Nat → Str → Bool
  | 0, _ => false
  | n + 1, p =>
    match lst p with
    | none => false
    | some (Node.link _) => false
    | some _ => if dirname p = p then true else noLinkPrefix lst n (dirname p)

/-- the walk started on a resolved path -/
def noLinkOn (lst : Str → Option Node) (p : Str) : Bool := noLinkPrefix lst (p.length + 1) p

/-- Check 3 (`_check_path_containment`, "Check 3", with D182 and D451 / D452): `os.stat(path)` - the very
string the `open` that follows uses - failing skips the layer (that open fails the same way); then the
answer of `os.path.realpath` is cross-checked against the kernel: `samestat(stat(path), stat(path_real))`
and `samestat(stat(base_dir), stat(base_real))`, and both answers must be fixed points of `realpath`
(D453: `os.stat` follows links, equal inodes do not show that the answer is link-free), and no prefix of
either answer may be a symbolic link (D454: a fixed point of a `realpath` that reports a loop by
returning its input need not be link-free; `noLinkOn`); a failing stat / lstat or a difference raises
(fail closed); `nlink > 1` raises; a file that is not regular raises. -/
def check3 (fs : FS) (kfuel fuel : Nat) (cwdS : Str) (cwd : Loc) (base loc : Str) : Bool :=
  match statFile fs kfuel cwd (tensorPath base loc) with
  | none => true
  | some (n, reg) =>
    match statId fs kfuel cwd (tensorPath base loc),
          statId fs kfuel cwd (realpath fs kfuel fuel cwdS cwd (tensorPath base loc)),
          statId fs kfuel cwd base,
          statId fs kfuel cwd (realpath fs kfuel fuel cwdS cwd base) with
    | some a, some b, some c, some d =>
      decide (a = b) && decide (c = d) &&
        decide (realpath fs kfuel fuel cwdS cwd (realpath fs kfuel fuel cwdS cwd (tensorPath base loc)) =
          realpath fs kfuel fuel cwdS cwd (tensorPath base loc)) &&
        decide (realpath fs kfuel fuel cwdS cwd (realpath fs kfuel fuel cwdS cwd base) =
          realpath fs kfuel fuel cwdS cwd base) &&
        noLinkOn (lstat fs kfuel cwd) (realpath fs kfuel fuel cwdS cwd (tensorPath base loc)) &&
        noLinkOn (lstat fs kfuel cwd) (realpath fs kfuel fuel cwdS cwd base) &&
        decide (n ≤ 1) && reg
    | _, _, _, _ => false

/-- `ExternalTensor._check_path_containment` (_core.py:760-825): the three layers in order. -/
def checkContainment (fs : FS) (kfuel fuel : Nat) (cwdS : Str) (cwd : Loc) (base loc : Str) : Verdict :=
  if base = [] then Verdict.skipped
  else if check1 cwdS base loc = false then Verdict.rej1
  else if check2 fs kfuel fuel cwdS cwd base loc = false then Verdict.rej2
  else if check3 fs kfuel fuel cwdS cwd base loc = false then Verdict.rej3
  else Verdict.pass

/-- the verdicts on which `_check_path_containment` raises -/
def rejecting : Verdict → Bool
  | Verdict.rej1 | Verdict.rej2 | Verdict.rej3 => true
  | _ => false

/-- Observable events of a call. -/
inductive Ev where
  | check (v : Verdict)
  | openEv (path : Str) (ino : Option Nat)
  deriving Repr, DecidableEq

inductive ReadResult where
  | raised
  | ok (bytes : List Nat)
  deriving Repr, DecidableEq

inductive EntryPoint where
  | numpy | tobytes | array | serializeRaw | tofile
  deriving Repr, DecidableEq

/-- The cached state of an `ExternalTensor`: `raw` = the inode currently memory-mapped
(`self.raw`), `arr` = `self._array is not None`. -/
structure TState where
  raw : Option Nat
  arr : Bool
  deriving Repr, DecidableEq

def TState.fresh : TState := { raw := none, arr := false }

def sliceOf (content : List Nat) (offset length : Nat) : List Nat := (content.drop offset).take length

/-- The primitive statements the read entry points of `ExternalTensor` are made of. -/
inductive Prim where
  | check        -- self._check_path_containment()                      (_load 829, tofile 943)
  | openMap      -- with open(self.path, "rb") as f: self.raw = mmap.mmap(f.fileno(), 0)  (_load 836-841)
  | frombuffer   -- self._array = np.frombuffer(self.raw, offset=..., count=...)          (_load 859)
  | openCopy     -- with open(self.path, "rb") as src: copy `length` bytes from `offset`  (tofile 944-)
  | takeArray    -- the bytes of self._array                      (numpy 909, __array__ 880)
  | takeRawSlice -- self.raw[offset : offset + length]                  (tobytes 929)
  | release      -- self.release()                                      (external_data.py:272)
  | emptyArray   -- size == 0: self._array = np.empty(...); return      (_load, `if self.size == 0`)
  | takeEmpty    -- the (no) bytes of the empty self._array
  | returnEmpty  -- size == 0: return b""                               (tobytes, `if self.size == 0`)
  deriving Repr, DecidableEq

/-- Statements of an entry point: a primitive, or one of the two guards on the cached state. -/
inductive Stmt where
  | prim (p : Prim)
  | ifNoArray (body : List Prim)   -- if self._array is None: ...
  | ifNoRaw (body : List Prim)     -- if self.raw is None: ...
  | ifNotLoaded (body : List Prim) -- if self.raw is None or self._array is None: ...   (tobytes)
  deriving Repr

/-- `ExternalTensor._load` (827-873, size > 0): check, open + mmap, frombuffer. -/
def loadBody : List Prim := [Prim.check, Prim.openMap, Prim.frombuffer]

/-- The bodies of the five read entry points, statement by statement:
`numpy()` (901-910), `__array__` (876-881), `tobytes()` (912-929), `tofile()` (931-1005),
serialisation to raw bytes = `numpy().copy()` then `release()` (external_data.py:271-272). -/
def body : EntryPoint → List Stmt
  | EntryPoint.numpy => [Stmt.ifNoArray loadBody, Stmt.prim Prim.takeArray]
  | EntryPoint.array => [Stmt.ifNoArray loadBody, Stmt.prim Prim.takeArray]
  | EntryPoint.tobytes => [Stmt.ifNotLoaded loadBody, Stmt.prim Prim.takeRawSlice]
  | EntryPoint.tofile => [Stmt.prim Prim.check, Stmt.prim Prim.openCopy]
  | EntryPoint.serializeRaw => [Stmt.ifNoArray loadBody, Stmt.prim Prim.takeArray, Stmt.prim Prim.release]

/-- The environment of a call: the tree, the process and the tensor's immutable fields. -/
structure Env where
  fs : FS
  kfuel : Nat
  fuel : Nat
  cwdS : Str
  cwd : Loc
  base : Str
  loc : Str
  offset : Nat
  length : Nat

/-- Machine state while a body runs: cached tensor state, events so far (newest last), the value
to return once the body ends, and whether an exception stopped it. -/
structure Run where
  st : TState
  events : List Ev
  pending : Option (List Nat)
  raised : Bool

/-- One primitive.  `openMap` and `openCopy` open the path UNCONDITIONALLY (an open event whatever
was or was not checked before); `check` raises on a rejecting verdict.  mmap raises on an empty
or non-regular file (size 0) and leaves `raw` untouched; frombuffer raises when the mapping is
shorter than offset+length (`raw` stays set); the copy loop raises when it cannot read `length`
bytes (with nothing to copy it does not read at all). -/
def execPrim (e : Env) (r : Run) : Prim → Run
  | Prim.check =>
    let v := checkContainment e.fs e.kfuel e.fuel e.cwdS e.cwd e.base e.loc
    { r with events := r.events ++ [Ev.check v], raised := rejecting v }
  | Prim.openMap =>
    let p := tensorPath e.base e.loc
    match openFile e.fs e.kfuel e.cwd p with
    | none => { r with events := r.events ++ [Ev.openEv p none], raised := true }
    | some (i, reg) =>
      let r' := { r with events := r.events ++ [Ev.openEv p (some i)] }
      if reg = false ∨ e.fs.data i = [] then { r' with raised := true }
      else { r' with st := { r'.st with raw := some i } }
  | Prim.frombuffer =>
    match r.st.raw with
    | none => { r with raised := true }
    | some i =>
      if (e.fs.data i).length < e.offset + e.length then { r with st := { r.st with arr := false }, raised := true }
      else { r with st := { r.st with arr := true } }
  | Prim.openCopy =>
    let p := tensorPath e.base e.loc
    match openFile e.fs e.kfuel e.cwd p with
    | none => { r with events := r.events ++ [Ev.openEv p none], raised := true }
    | some (i, _) =>
      let r' := { r with events := r.events ++ [Ev.openEv p (some i)] }
      if 0 < e.length ∧ (e.fs.data i).length < e.offset + e.length then { r' with raised := true }
      else { r' with pending := some (sliceOf (e.fs.data i) e.offset e.length) }
  | Prim.takeArray =>
    match r.st.arr, r.st.raw with
    | true, some i => { r with pending := some (sliceOf (e.fs.data i) e.offset e.length) }
    | _, _ => { r with raised := true }
  | Prim.takeRawSlice =>
    match r.st.raw with
    | some i => { r with pending := some (sliceOf (e.fs.data i) e.offset e.length) }
    | none => { r with raised := true }
  | Prim.release => { r with st := TState.fresh }
  | Prim.emptyArray => { r with st := { r.st with arr := true } }
  | Prim.takeEmpty => if r.st.arr then { r with pending := some [] } else { r with raised := true }
  | Prim.returnEmpty => { r with pending := some [] }

/-- run primitives until one raises -/
def execPrims (e : Env) : Run → List Prim → Run
  | r, [] => r
  | r, p :: ps => if r.raised then r else execPrims e (execPrim e r p) ps

def execStmt (e : Env) (r : Run) : Stmt → Run
  | Stmt.prim p => execPrim e r p
  | Stmt.ifNoArray b => if r.st.arr = false then execPrims e r b else r
  | Stmt.ifNoRaw b => if r.st.raw = none then execPrims e r b else r
  | Stmt.ifNotLoaded b => if r.st.raw = none ∨ r.st.arr = false then execPrims e r b else r

def execStmts (e : Env) : Run → List Stmt → Run
  | r, [] => r
  | r, s :: ss => if r.raised then r else execStmts e (execStmt e r s) ss

/-- run a body from the cached state `st` -/
def runBody (e : Env) (st : TState) (b : List Stmt) : ReadResult × List Ev × TState :=
  let r := execStmts e { st := st, events := [], pending := none, raised := false } b
  (if r.raised then ReadResult.raised
   else match r.pending with
     | some bs => ReadResult.ok bs
     | none => ReadResult.raised,
   r.events, r.st)

/-- One CALL of an entry point on a tensor whose cached state is `st`. -/
def call (fs : FS) (kfuel fuel : Nat) (cwdS : Str) (cwd : Loc) (base loc : Str) (offset length : Nat)
    (ep : EntryPoint) (st : TState) : ReadResult × List Ev × TState :=
  runBody { fs := fs, kfuel := kfuel, fuel := fuel, cwdS := cwdS, cwd := cwd, base := base, loc := loc,
            offset := offset, length := length } st (body ep)

/-- A read of a tensor that has nothing cached: result and events. -/
def read (fs : FS) (kfuel fuel : Nat) (cwdS : Str) (cwd : Loc) (base loc : Str) (offset length : Nat)
    (ep : EntryPoint) : ReadResult × List Ev :=
  let r := call fs kfuel fuel cwdS cwd base loc offset length ep TState.fresh
  (r.1, r.2.1)

end IrVerif.Path

/-! ## Sequences of calls on one tensor -/
namespace IrVerif.Path

/-- A step in the life of one external tensor: the tree changes under it, `base_dir` is
re-assigned (the setter drops the mapping when the value changes, D184: `base_dir.setter` calls
`self.release()`), `release()`, or an entry point is called. -/
inductive Step where
  | setFS (fs : FS)
  | setBase (base : Str)
  | release
  | call (ep : EntryPoint)

structure Sess where
  fs : FS
  base : Str
  st : TState

/-- what one call did: the tree and base directory at the time of the call, the entry point, its
result and its events -/
structure LogEntry where
  fs : FS
  base : Str
  ep : EntryPoint
  res : ReadResult
  events : List Ev

def stepSess (kfuel fuel : Nat) (cwdS : Str) (cwd : Loc) (loc : Str) (offset length : Nat)
    (s : Sess) : Step → Sess × Option LogEntry
  | Step.setFS fs => ({ s with fs := fs }, none)
  | Step.setBase b => ({ s with base := b, st := if b = s.base then s.st else TState.fresh }, none)
  | Step.release => ({ s with st := TState.fresh }, none)
  | Step.call ep =>
    let r := call s.fs kfuel fuel cwdS cwd s.base loc offset length ep s.st
    ({ s with st := r.2.2 }, some { fs := s.fs, base := s.base, ep := ep, res := r.1, events := r.2.1 })

/-- run a sequence of steps; returns the final session and the log of calls (oldest first) -/
def runSess (kfuel fuel : Nat) (cwdS : Str) (cwd : Loc) (loc : Str) (offset length : Nat) :
    Sess → List Step → Sess × List LogEntry
  | s, [] => (s, [])
  | s, x :: xs =>
    let r := stepSess kfuel fuel cwdS cwd loc offset length s x
    let rest := runSess kfuel fuel cwdS cwd loc offset length r.1 xs
    match r.2 with
    | some e => (rest.1, e :: rest.2)
    | none => (rest.1, rest.2)

end IrVerif.Path

/-! ## `set_base_dir`: which tensors of a loaded model get the base directory -/
namespace IrVerif.Path

mutual
/-- a graph: its initializers' tensors and its nodes -/
inductive GTree where
  | mk (inits : List String) (nodes : List NTree)
/-- a node: the tensors held in its TENSOR / TENSORS attributes, the graphs held in its
GRAPH / GRAPHS attributes -/
inductive NTree where
  | mk (tattrs : List String) (gattrs : List GTree)
end

def GTree.inits : GTree → List String
  | GTree.mk i _ => i

/-- initializers of directly attached subgraphs (the GRAPH / GRAPHS branches of `_all_tensors`,
external_data.py:156-165) -/
def initsOf : List GTree → List String
  | [] => []
  | g :: gs => g.inits ++ initsOf gs

mutual
/-- what `_all_tensors` yields for one visited node (external_data.py:150-165) followed by what it
yields for the nodes `RecursiveGraphIterator` visits next: the nodes of the node's subgraphs
(traversal.py `_recursive_node_iter`: the node, then its subgraphs, depth first) -/
def walkNode : NTree → List String
  | NTree.mk ta gs => ta ++ initsOf gs ++ walkGraphs gs
def walkGraphs : List GTree → List String
  | [] => []
  | g :: gs => walkGraphNodes g ++ walkGraphs gs
def walkGraphNodes : GTree → List String
  | GTree.mk _ nodes => walkNodes nodes
def walkNodes : List NTree → List String
  | [] => []
  | n :: ns => walkNode n ++ walkNodes ns
end

/-- `_all_tensors(graph, include_attributes=True)` (external_data.py:131-165): the initializers of
the graph, then the attribute tensors found by walking all nodes recursively. -/
def allTensors (g : GTree) : List String := g.inits ++ walkGraphNodes g

mutual
/-- every tensor position anywhere in the model: initializers and attribute tensors of the graph and
of all graphs nested in it at any depth -/
def reachGraph : GTree → List String
  | GTree.mk i nodes => i ++ reachNodes nodes
def reachNodes : List NTree → List String
  | [] => []
  | n :: ns => reachNode n ++ reachNodes ns
def reachNode : NTree → List String
  | NTree.mk ta gs => ta ++ reachGraphs gs
def reachGraphs : List GTree → List String
  | [] => []
  | g :: gs => reachGraph g ++ reachGraphs gs
end

def funcsTensors : List GTree → List String
  | [] => []
  | f :: fs => allTensors f ++ funcsTensors fs

def reachFuncs : List GTree → List String
  | [] => []
  | f :: fs => reachGraph f ++ reachFuncs fs

/-- what `load()` assigns the base directory to (_io.py:40-44): `set_base_dir(model.graph)` and,
since D180, `set_base_dir(function.graph)` for every model-local function -/
def loadTensors (main : GTree) (funcs : List GTree) : List String :=
  allTensors main ++ funcsTensors funcs

/-- every tensor position of a model: of its main graph and of its function bodies -/
def reachModel (main : GTree) (funcs : List GTree) : List String :=
  reachGraph main ++ reachFuncs funcs

/-- the seeded variant that iterates only the top-level nodes (`for node in graph`), kept to show
what the theorem excludes -/
def allTensorsShallow : GTree → List String
  | GTree.mk i nodes => i ++ shallowNodes nodes
where
  shallowNodes : List NTree → List String
    | [] => []
    | NTree.mk ta gs :: ns => ta ++ initsOf gs ++ shallowNodes ns

end IrVerif.Path

/-! ## Zero-size tensors, `base_dir` values of any type, several tensors re-based through the public API -/
namespace IrVerif.Path

/-- `_load` of a zero-size tensor (`if self.size == 0:` after the check): an empty array, nothing is
opened or mapped -/
def loadBodyZ : List Prim := [Prim.check, Prim.emptyArray]

/-- the entry points on a tensor with `size == 0`: numpy / `__array__` / serialisation run the check
and return no byte without opening anything; `tobytes` returns `b""` before touching the path at
all; `tofile` is the same statement list as for any tensor (check, then open and copy `length`
bytes, where `length` is `self._length or self.nbytes`: it may be non-zero) -/
def bodyZ : EntryPoint → List Stmt
  | EntryPoint.numpy => [Stmt.ifNoArray loadBodyZ, Stmt.prim Prim.takeEmpty]
  | EntryPoint.array => [Stmt.ifNoArray loadBodyZ, Stmt.prim Prim.takeEmpty]
  | EntryPoint.tobytes => [Stmt.prim Prim.returnEmpty]
  | EntryPoint.tofile => [Stmt.prim Prim.check, Stmt.prim Prim.openCopy]
  | EntryPoint.serializeRaw => [Stmt.ifNoArray loadBodyZ, Stmt.prim Prim.takeEmpty, Stmt.prim Prim.release]

/-- the Python type of a `base_dir` value -/
inductive BaseKind where
  | str | pathlike | bytes
  deriving Repr, DecidableEq

/-- a `base_dir` value: its type and `os.fspath` of it.  Values of different types are different
for the setter's `value != self._base_dir` even when they spell the same directory. -/
structure BaseVal where
  kind : BaseKind
  s : Str
  deriving Repr, DecidableEq

/-- the immutable fields of one external tensor: location, offset, number of bytes `tofile` copies
and `tobytes` slices (`self._length or self.nbytes`), and whether `size == 0` -/
structure TensorP where
  loc : Str
  offset : Nat
  length : Nat
  zero : Bool

/-- One call of an entry point on a tensor with parameters `p`, base directory value `b`, cached
state `st`.  A `bytes` base directory makes `os.path.join(base_dir, location)` raise TypeError (str
location) the first time the path is needed, before any check or open: only `tobytes` of a
zero-size tensor, which never needs the path, returns. -/
def callT (fs : FS) (kfuel fuel : Nat) (cwdS : Str) (cwd : Loc) (p : TensorP) (b : BaseVal)
    (ep : EntryPoint) (st : TState) : ReadResult × List Ev × TState :=
  if b.kind = BaseKind.bytes then
    (if p.zero = true ∧ ep = EntryPoint.tobytes then ReadResult.ok [] else ReadResult.raised, [], st)
  else if p.zero = true then
    runBody { fs := fs, kfuel := kfuel, fuel := fuel, cwdS := cwdS, cwd := cwd, base := b.s, loc := p.loc,
              offset := p.offset, length := p.length } st (bodyZ ep)
  else call fs kfuel fuel cwdS cwd b.s p.loc p.offset p.length ep st

/-- one tensor object: its current `base_dir` and cached state -/
structure TSess where
  base : BaseVal
  st : TState

/-- `base_dir.setter` (D184): the mapping is dropped when the value changes -/
def TSess.rebase (s : TSess) (b : BaseVal) : TSess :=
  { base := b, st := if b = s.base then s.st else TState.fresh }

/-- the tree, every tensor object (by creation index), and whether the running
`convert_tensors_from_external` list comprehension has raised -/
structure World where
  fs : FS
  ts : Nat → TSess
  aborted : Bool

def World.set (w : World) (t : Nat) (s : TSess) : World :=
  { w with ts := fun k => if k = t then s else w.ts k }

/-- micro operations: what the public operations expand to -/
inductive MOp where
  | setFS (fs : FS)
  | rebase (t : Nat) (b : BaseVal)   -- tensor.base_dir = b
  | release (t : Nat)
  | call (t : Nat) (ep : EntryPoint)
  | beginLoad                         -- a convert_tensors_from_external([...]) starts
  | loadOne (t : Nat)                 -- its next element (skipped once an earlier one raised)

/-- the public operations on a model with external tensors -/
inductive WOp where
  | setFS (fs : FS)
  | setBase (t : Nat) (b : BaseVal)            -- `tensor.base_dir = b`
  | setBaseDir (ts : List Nat) (b : BaseVal)   -- `external_data.set_base_dir(graph, b)`: the tensors its walker reaches, in order
  | release (t : Nat)
  | call (t : Nat) (ep : EntryPoint)
  | loadToModel (ts : List Nat)                -- `load_to_model` / `convert_tensors_from_external`: in order, stops at the first raise

def WOp.expand : WOp → List MOp
  | WOp.setFS fs => [MOp.setFS fs]
  | WOp.setBase t b => [MOp.rebase t b]
  | WOp.setBaseDir ts b => ts.map (MOp.rebase · b)
  | WOp.release t => [MOp.release t]
  | WOp.call t ep => [MOp.call t ep]
  | WOp.loadToModel ts => MOp.beginLoad :: ts.map MOp.loadOne

/-- what one call did -/
structure WLog where
  t : Nat
  fs : FS
  base : BaseVal
  ep : EntryPoint
  res : ReadResult
  events : List Ev

def stepWorld (kfuel fuel : Nat) (cwdS : Str) (cwd : Loc) (ps : Nat → TensorP) (w : World) :
    MOp → World × Option WLog
  | MOp.setFS fs => ({ w with fs := fs }, none)
  | MOp.rebase t b => (w.set t ((w.ts t).rebase b), none)
  | MOp.release t => (w.set t { (w.ts t) with st := TState.fresh }, none)
  | MOp.call t ep =>
    let r := callT w.fs kfuel fuel cwdS cwd (ps t) (w.ts t).base ep (w.ts t).st
    (w.set t { (w.ts t) with st := r.2.2 },
      some { t := t, fs := w.fs, base := (w.ts t).base, ep := ep, res := r.1, events := r.2.1 })
  | MOp.beginLoad => ({ w with aborted := false }, none)
  | MOp.loadOne t =>
    if w.aborted then (w, none)
    else
      let r := callT w.fs kfuel fuel cwdS cwd (ps t) (w.ts t).base EntryPoint.serializeRaw (w.ts t).st
      ({ (w.set t { (w.ts t) with st := r.2.2 }) with aborted := decide (r.1 = ReadResult.raised) },
        some { t := t, fs := w.fs, base := (w.ts t).base, ep := EntryPoint.serializeRaw, res := r.1, events := r.2.1 })

/-- run micro operations; the log of calls, oldest first -/
def runMicro (kfuel fuel : Nat) (cwdS : Str) (cwd : Loc) (ps : Nat → TensorP) : World → List MOp → List WLog
  | _, [] => []
  | w, x :: xs =>
    let r := stepWorld kfuel fuel cwdS cwd ps w x
    match r.2 with
    | some e => e :: runMicro kfuel fuel cwdS cwd ps r.1 xs
    | none => runMicro kfuel fuel cwdS cwd ps r.1 xs

def expandAll : List WOp → List MOp
  | [] => []
  | o :: os => o.expand ++ expandAll os

/-- a history of public operations -/
def runWorld (kfuel fuel : Nat) (cwdS : Str) (cwd : Loc) (ps : Nat → TensorP) (w : World) (ops : List WOp) :
    List WLog :=
  runMicro kfuel fuel cwdS cwd ps w (expandAll ops)

end IrVerif.Path

/-! ## histories with `os.chdir` between the operations -/
namespace IrVerif.Path

/-- a micro operation, or `os.chdir(d)` (`cwdS` = what `os.getcwd()` returns afterwards) -/
inductive CMOp where
  | m (x : MOp)
  | chdir (cwdS : Str)

/-- run micro operations under a working directory that changes; every call is logged together with
the working directory it was made in (the location it names is `comps cwdS`) -/
def runMicroC (kfuel fuel : Nat) (ps : Nat → TensorP) : Str → World → List CMOp → List (Str × WLog)
  | _, _, [] => []
  | _, w, CMOp.chdir c :: xs => runMicroC kfuel fuel ps c w xs
  | cwdS, w, CMOp.m x :: xs =>
    let r := stepWorld kfuel fuel cwdS (comps cwdS) ps w x
    match r.2 with
    | some e => (cwdS, e) :: runMicroC kfuel fuel ps cwdS r.1 xs
    | none => runMicroC kfuel fuel ps cwdS r.1 xs

/-- a public operation, or `os.chdir` -/
inductive COp where
  | op (o : WOp)
  | chdir (cwdS : Str)

def expandAllC : List COp → List CMOp
  | [] => []
  | COp.op o :: os => o.expand.map CMOp.m ++ expandAllC os
  | COp.chdir c :: os => CMOp.chdir c :: expandAllC os

def runWorldC (kfuel fuel : Nat) (ps : Nat → TensorP) (cwdS : Str) (w : World) (ops : List COp) :
    List (Str × WLog) :=
  runMicroC kfuel fuel ps cwdS w (expandAllC ops)

end IrVerif.Path

/-! ## PATH_MAX at every path operation (as the code is: differential model, see D451 / D452) -/
namespace IrVerif.Path

/-- `os.lstat(p)` with Linux's PATH_MAX: a string of PATH_MAX bytes or more is refused (ENAMETOOLONG)
before any lookup, whatever it names -/
def lstatP (fs : FS) (kfuel : Nat) (cwd : Loc) (p : Str) : Option Node :=
  if PATH_MAX ≤ p.length then none else lstat fs kfuel cwd p

/-- `os.stat(p)` with PATH_MAX -/
def statFileP (fs : FS) (kfuel : Nat) (cwd : Loc) (p : Str) : Option (Nat × Bool) :=
  if PATH_MAX ≤ p.length then none else statFile fs kfuel cwd p

/-- `_joinrealpath` as CPython runs it on Linux: `os.lstat(newpath)` is called on the RESOLVED prefix
joined with the name; when that string has PATH_MAX bytes or more the call raises OSError, which the
non-strict `realpath` swallows: the entry is taken to be a non-link (posixpath.py `except OSError:
is_link = False`).  Otherwise identical to `joinReal`. -/
def joinRealP (fs : FS) (kfuel : Nat) (cwd : Loc) : Nat → Str → List Str → Seen → Str × Bool × Seen
  | _, path, [], seen => (path, true, seen)
  | fuel, path, name :: rest, seen =>
    if name = [] ∨ name = DOT then joinRealP fs kfuel cwd fuel path rest seen
    else if name = DOTDOT then joinRealP fs kfuel cwd fuel (parentPath path) rest seen
    else
      let newpath := pjoin path name
      match lstatP fs kfuel cwd newpath with
      | some (Node.link target) =>
        match Seen.find seen newpath with
        | some (some p) => joinRealP fs kfuel cwd fuel p rest seen
        | some none => (pjoin newpath (joinSep rest), false, seen)
        | none =>
          match fuel with
          | 0 => (pjoin newpath (joinSep rest), false, seen)
          | fuel' + 1 =>
            let r := joinRealP fs kfuel cwd fuel' (if isabs target then ['/'] else path)
              (splitSep (if isabs target then target.tail else target)) ((newpath, none) :: seen)
            if r.2.1 = false then (pjoin r.1 (joinSep rest), false, r.2.2)
            else joinRealP fs kfuel cwd (fuel' + 1) r.1 rest ((newpath, some r.1) :: r.2.2)
      | _ => joinRealP fs kfuel cwd fuel newpath rest seen
termination_by fuel _ rest _ => (fuel, rest.length)

def realpathP (fs : FS) (kfuel fuel : Nat) (cwdS : Str) (cwd : Loc) (filename : Str) : Str :=
  let r := joinRealP fs kfuel cwd fuel (if isabs filename then ['/'] else [])
    (splitSep (if isabs filename then filename.tail else filename)) []
  abspath cwdS r.1

/-- `os.stat(p)` identity with PATH_MAX -/
def statIdP (fs : FS) (kfuel : Nat) (cwd : Loc) (p : Str) : Option StatId :=
  if PATH_MAX ≤ p.length then none else statId fs kfuel cwd p

/-- `_check_path_containment` with PATH_MAX at every `os.lstat` / `os.stat` it makes -/
def checkContainmentP (fs : FS) (kfuel fuel : Nat) (cwdS : Str) (cwd : Loc) (base loc : Str) : Verdict :=
  if base = [] then Verdict.skipped
  else if check1 cwdS base loc = false then Verdict.rej1
  else if hasNul base || hasNul loc then Verdict.rej2
  else if contained (realpathP fs kfuel fuel cwdS cwd base)
      (realpathP fs kfuel fuel cwdS cwd (tensorPath base loc)) = false then Verdict.rej2
  else
    match statFileP fs kfuel cwd (tensorPath base loc) with
    | none => Verdict.pass
    | some (n, reg) =>
      match statIdP fs kfuel cwd (tensorPath base loc),
            statIdP fs kfuel cwd (realpathP fs kfuel fuel cwdS cwd (tensorPath base loc)),
            statIdP fs kfuel cwd base,
            statIdP fs kfuel cwd (realpathP fs kfuel fuel cwdS cwd base) with
      | some a, some b, some c, some d =>
        if decide (a = b) && decide (c = d) &&
            decide (realpathP fs kfuel fuel cwdS cwd (realpathP fs kfuel fuel cwdS cwd (tensorPath base loc)) =
              realpathP fs kfuel fuel cwdS cwd (tensorPath base loc)) &&
            decide (realpathP fs kfuel fuel cwdS cwd (realpathP fs kfuel fuel cwdS cwd base) =
              realpathP fs kfuel fuel cwdS cwd base) &&
            noLinkOn (lstatP fs kfuel cwd) (realpathP fs kfuel fuel cwdS cwd (tensorPath base loc)) &&
            noLinkOn (lstatP fs kfuel cwd) (realpathP fs kfuel fuel cwdS cwd base) &&
            decide (n ≤ 1) && reg then Verdict.pass else Verdict.rej3
      | _, _, _, _ => Verdict.rej3

/-- an entry name: not "", ".", ".." and without a separator -/
def cleanB (c : Str) : Bool := c != [] && c != DOT && c != DOTDOT && !c.contains '/'

/-- `s` is the canonical absolute string "/c1/c2/..." of entry names, and none of the locations [c1],
[c1, c2], ... is a symbolic link in the tree: what a correct answer of `os.path.realpath` looks like.
Hypothesis of `C10_pathmax_safe`, evaluated on every generated case (driver: path.readsP, field "lf");
since D454 the check establishes it itself (`noLinkOn`, theorem `C10_pathmax_safe_full`). -/
def linkFreeAnswer (fs : FS) (s : Str) : Bool :=
  decide (s = '/' :: joinSep (comps s)) && (comps s).all cleanB &&
    (List.range (comps s).length).all (fun k =>
      match fs.get ((comps s).take (k + 1)) with
      | some (Node.link _) => false
      | _ => true)

/-- a read of an unmapped tensor through `tofile` (check, open, copy) with PATH_MAX everywhere:
verdict, what the open reached, result -/
def readP (fs : FS) (kfuel fuel : Nat) (cwdS : Str) (cwd : Loc) (base loc : Str) (offset length : Nat) :
    ReadResult × List Ev :=
  let v := checkContainmentP fs kfuel fuel cwdS cwd base loc
  if rejecting v then (ReadResult.raised, [Ev.check v])
  else
    let p := tensorPath base loc
    match openFile fs kfuel cwd p with
    | none => (ReadResult.raised, [Ev.check v, Ev.openEv p none])
    | some (i, _) =>
      if 0 < length ∧ (fs.data i).length < offset + length then (ReadResult.raised, [Ev.check v, Ev.openEv p (some i)])
      else (ReadResult.ok (sliceOf (fs.data i) offset length), [Ev.check v, Ev.openEv p (some i)])

end IrVerif.Path

/-! ## a LOCATION given as a bytes object -/
namespace IrVerif.Path

/-- One call on a tensor whose `location` is a `bytes` object (an `os.fsencode` spelling).
`os.path.join(base_dir, location)` needs both of one kind: with a `str` / `os.PathLike[str]` base
directory it raises TypeError the first time the path is needed; with a `bytes` base directory the
join works and the path is a bytes object, but check 1 (`base_abs.endswith(os.sep)`, a str) raises
TypeError.  So with a NON-EMPTY base directory of any type nothing is checked or opened and the call
raises (only `tobytes` of a zero-size tensor, which never needs the path, returns).  With an EMPTY base
directory the checks are off by design: `b""` + bytes location reads like `""` + str location; `""` +
bytes location returns only where the path is not needed (zero-size, not `tofile`). -/
def callTB (fs : FS) (kfuel fuel : Nat) (cwdS : Str) (cwd : Loc) (p : TensorP) (b : BaseVal)
    (ep : EntryPoint) (st : TState) : ReadResult × List Ev × TState :=
  if b.s = [] then
    if b.kind = BaseKind.bytes then callT fs kfuel fuel cwdS cwd p { kind := BaseKind.str, s := [] } ep st
    else if p.zero = true ∧ ep ≠ EntryPoint.tofile then
      callT fs kfuel fuel cwdS cwd p { kind := BaseKind.str, s := [] } ep st
    else (ReadResult.raised, [Ev.check Verdict.skipped], st)
  else (if p.zero = true ∧ ep = EntryPoint.tobytes then ReadResult.ok [] else ReadResult.raised, [], st)

end IrVerif.Path

/-! ## system calls that fail where the kernel would resolve: ENAMETOOLONG, EACCES, ... (D451 - D454) -/
namespace IrVerif.Path

/-- the system calls the containment check and the open that follows make, as the process sees them
(None = OSError, whatever the errno) -/
structure Sys where
  lstat : Str → Option Node
  statFile : Str → Option (Nat × Bool)
  statId : Str → Option StatId
  openF : Str → Option (Nat × Bool)

/-- `_joinrealpath` (non-strict) over the process's `os.lstat`: an entry that cannot be examined is
taken to be a non-link (posixpath.py `except OSError: is_link = False`).  The text of `joinRealP` with
`sys.lstat` for `lstatP`. -/
def joinRealV (sys : Sys) : Nat → Str → List Str → Seen → Str × Bool × Seen
  | _, path, [], seen => (path, true, seen)
  | fuel, path, name :: rest, seen =>
    if name = [] ∨ name = DOT then joinRealV sys fuel path rest seen
    else if name = DOTDOT then joinRealV sys fuel (parentPath path) rest seen
    else
      let newpath := pjoin path name
      match sys.lstat newpath with
      | some (Node.link target) =>
        match Seen.find seen newpath with
        | some (some p) => joinRealV sys fuel p rest seen
        | some none => (pjoin newpath (joinSep rest), false, seen)
        | none =>
          match fuel with
          | 0 => (pjoin newpath (joinSep rest), false, seen)
          | fuel' + 1 =>
            let r := joinRealV sys fuel' (if isabs target then ['/'] else path)
              (splitSep (if isabs target then target.tail else target)) ((newpath, none) :: seen)
            if r.2.1 = false then (pjoin r.1 (joinSep rest), false, r.2.2)
            else joinRealV sys (fuel' + 1) r.1 rest ((newpath, some r.1) :: r.2.2)
      | _ => joinRealV sys fuel newpath rest seen
termination_by fuel _ rest _ => (fuel, rest.length)

def realpathV (sys : Sys) (fuel : Nat) (cwdS : Str) (filename : Str) : Str :=
  let r := joinRealV sys fuel (if isabs filename then ['/'] else [])
    (splitSep (if isabs filename then filename.tail else filename)) []
  abspath cwdS r.1

/-- `_check_path_containment` (as repaired after D451 - D454) over the process's system calls: the text of
`checkContainmentP` with `sys.*` for the PATH_MAX variants -/
def checkContainmentV (sys : Sys) (fuel : Nat) (cwdS : Str) (base loc : Str) : Verdict :=
  if base = [] then Verdict.skipped
  else if check1 cwdS base loc = false then Verdict.rej1
  else if hasNul base || hasNul loc then Verdict.rej2
  else if contained (realpathV sys fuel cwdS base) (realpathV sys fuel cwdS (tensorPath base loc)) = false then
    Verdict.rej2
  else
    match sys.statFile (tensorPath base loc) with
    | none => Verdict.pass
    | some (n, reg) =>
      match sys.statId (tensorPath base loc),
            sys.statId (realpathV sys fuel cwdS (tensorPath base loc)),
            sys.statId base,
            sys.statId (realpathV sys fuel cwdS base) with
      | some a, some b, some c, some d =>
        if decide (a = b) && decide (c = d) &&
            decide (realpathV sys fuel cwdS (realpathV sys fuel cwdS (tensorPath base loc)) =
              realpathV sys fuel cwdS (tensorPath base loc)) &&
            decide (realpathV sys fuel cwdS (realpathV sys fuel cwdS base) = realpathV sys fuel cwdS base) &&
            noLinkOn sys.lstat (realpathV sys fuel cwdS (tensorPath base loc)) &&
            noLinkOn sys.lstat (realpathV sys fuel cwdS base) &&
            decide (n ≤ 1) && reg then Verdict.pass else Verdict.rej3
      | _, _, _, _ => Verdict.rej3

/-- a read of an unmapped tensor through `tofile` (check, open, copy) over the process's system calls -/
def readV (sys : Sys) (data : Nat → List Nat) (fuel : Nat) (cwdS : Str) (base loc : Str) (offset length : Nat) :
    ReadResult × List Ev :=
  let v := checkContainmentV sys fuel cwdS base loc
  if rejecting v then (ReadResult.raised, [Ev.check v])
  else
    let p := tensorPath base loc
    match sys.openF p with
    | none => (ReadResult.raised, [Ev.check v, Ev.openEv p none])
    | some (i, _) =>
      if 0 < length ∧ (data i).length < offset + length then (ReadResult.raised, [Ev.check v, Ev.openEv p (some i)])
      else (ReadResult.ok (sliceOf (data i) offset length), [Ev.check v, Ev.openEv p (some i)])

/-- the system calls with PATH_MAX only: the model `checkContainmentP` / `readP` -/
def sysP (fs : FS) (kfuel : Nat) (cwd : Loc) : Sys :=
  { lstat := lstatP fs kfuel cwd, statFile := statFileP fs kfuel cwd, statId := statIdP fs kfuel cwd,
    openF := openFile fs kfuel cwd }

/-- Kernel path walk with search permissions (path_resolution(7), "Permissions"; fs/namei.c `may_lookup`
at the top of every iteration of `link_path_walk`): looking up a component - a name, "." or ".." - needs
search (x) permission for the current uid on the directory it is looked up in; `search cur = false`:
EACCES.  An empty piece (doubled or trailing separator) is no lookup.  Otherwise the text of `walk`. -/
def walkA (fs : FS) (search : Loc → Bool) : Nat → Loc → List Str → Bool → Option Loc
  | _, cur, [], _ => some cur
  | fuel, cur, c :: rest, follow =>
    match fs.get cur with
    | some Node.dir =>
      if c = [] then walkA fs search fuel cur rest follow
      else if search cur = false then none
      else if c = DOT then walkA fs search fuel cur rest follow
      else if c = DOTDOT then walkA fs search fuel cur.dropLast rest follow
      else
        match fs.get (cur ++ [c]) with
        | none => none
        | some (Node.link t) =>
          if rest = [] ∧ follow = false then some (cur ++ [c])
          else
            match fuel with
            | 0 => none
            | fuel' + 1 => walkA fs search fuel' (startLoc cur t) (splitSep t ++ rest) follow
        | some _ => walkA fs search fuel (cur ++ [c]) rest follow
    | _ => none
termination_by fuel _ comps _ => (fuel, comps.length)

/-- resolution of a path string by the kernel for a process that may be refused: PATH_MAX, then the walk
with search permissions -/
def kresolveA (fs : FS) (search : Loc → Bool) (fuel : Nat) (cwd : Loc) (p : Str) (follow : Bool) : Option Loc :=
  if p = [] ∨ PATH_MAX ≤ p.length then none else walkA fs search fuel (startLoc cwd p) (splitSep p) follow

/-- the system calls of an unprivileged process: PATH_MAX and search permissions (`os.lstat`, `os.stat`
need no permission on the object itself; `open(.., "rb")` of files that are readable once reached) -/
def sysA (fs : FS) (search : Loc → Bool) (kfuel : Nat) (cwd : Loc) : Sys :=
  { lstat := fun p =>
      match kresolveA fs search kfuel cwd p false with
      | some l => fs.get l
      | none => none,
    statFile := fun p =>
      match kresolveA fs search kfuel cwd p true with
      | some l =>
        match fs.get l with
        | some (Node.file i) => some (fs.nlink i, true)
        | some (Node.other i) => some (fs.nlink i, false)
        | some Node.dir => some (fs.dnlink l, false)
        | _ => none
      | none => none,
    statId := fun p =>
      match kresolveA fs search kfuel cwd p true with
      | some l =>
        match fs.get l with
        | some (Node.file i) => some (StatId.ino i)
        | some (Node.other i) => some (StatId.oth i)
        | some Node.dir => some (StatId.dir l)
        | _ => none
      | none => none,
    openF := fun p =>
      match kresolveA fs search kfuel cwd p true with
      | some l =>
        match fs.get l with
        | some (Node.file i) => some (i, true)
        | some (Node.other i) => some (i, false)
        | _ => none
      | none => none }

end IrVerif.Path

/-
C10 — executable model of the POSIX path algebra used by
`ExternalTensor._check_path_containment` (src/onnx_ir/_core.py:750-815), of the reads guarded by
it (`_load` 817-831, `tofile` 917-930) and of `load()`'s base-directory derivation
(src/onnx_ir/_io.py:32-38).  Core Lean only.

Strings are `List Char` (`Str`); the separator is the character '/' (POSIX; `os.path.normcase`
is the identity there).  The functions transcribe CPython 3.12 `posixpath`:
`join` (posixpath.py:71-92), `split`/`dirname` (100-109, 179-187), `splitroot` (138-164),
`normpath` (377-405; the C accelerator `_path_normpath` computes the same function on strings
without NUL), `abspath` (416-425), `realpath`/`_joinrealpath` (431-500).
-/
namespace IrVerif.Path

abbrev Str := List Char

def DOT : Str := ['.']
def DOTDOT : Str := ['.', '.']

/-- Python `s.split('/')` : always at least one piece. -/
def splitSep : Str → List Str
  | [] => [[]]
  | c :: cs =>
    match splitSep cs with
    | [] => [[]]
    | h :: t => if c = '/' then [] :: h :: t else (c :: h) :: t

/-- Python `'/'.join(parts)`. -/
def joinSep : List Str → Str
  | [] => []
  | [a] => a
  | a :: b :: t => a ++ '/' :: joinSep (b :: t)

/-- `posixpath.isabs` (60-64): starts with the separator. -/
def isabs : Str → Bool
  | c :: _ => c = '/'
  | [] => false

def endsWithSep (p : Str) : Bool :=
  match p.getLast? with
  | some c => c = '/'
  | none => false

/-- `posixpath.join(a, b)` (71-92), two arguments. -/
def pjoin (a b : Str) : Str :=
  if isabs b then b
  else if a = [] ∨ endsWithSep a then a ++ b
  else a ++ '/' :: b

/-- `posixpath.splitroot` (138-164) without the (always empty) drive: number of initial
slashes kept (0, 1 or 2) and the tail. -/
def splitroot (p : Str) : Nat × Str :=
  match p with
  | [] => (0, p)
  | c1 :: r1 =>
    if c1 = '/' then
      match r1 with
      | [] => (1, r1)
      | c2 :: r2 =>
        if c2 = '/' then
          match r2 with
          | [] => (2, r2)
          | c3 :: _ => if c3 = '/' then (1, r1) else (2, r2)
        else (1, r1)
    else (0, p)

/-- One iteration of the `for comp in comps` loop of `normpath` (395-402); `new_comps` is kept
as a stack (last element first). -/
def normStep (rooted : Bool) (stack : List Str) (comp : Str) : List Str :=
  if comp = [] ∨ comp = DOT then stack
  else if comp ≠ DOTDOT ∨ (rooted = false ∧ stack = []) ∨ stack.head? = some DOTDOT then
    comp :: stack
  else stack.tail

/-- `posixpath.normpath` (377-405). -/
def normpath (p : Str) : Str :=
  if p = [] then DOT
  else
    let rt := splitroot p
    let stack := (splitSep rt.2).foldl (normStep (rt.1 != 0)) []
    let body := List.replicate rt.1 '/' ++ joinSep stack.reverse
    if body = [] then DOT else body

/-- `posixpath.abspath` (416-425) with `os.getcwd()` passed explicitly. -/
def abspath (cwd p : Str) : Str :=
  normpath (if isabs p then p else pjoin cwd p)

def rstripSep (p : Str) : Str := (p.reverse.dropWhile (· = '/')).reverse

/-- `p[:p.rfind('/')+1]`. -/
def headPart (p : Str) : Str := (p.reverse.dropWhile (· ≠ '/')).reverse

/-- `p[p.rfind('/')+1:]`. -/
def tailPart (p : Str) : Str := (p.reverse.takeWhile (· ≠ '/')).reverse

/-- `posixpath.dirname` (179-187). -/
def dirname (p : Str) : Str :=
  let head := headPart p
  if head ≠ [] ∧ head.all (· = '/') = false then rstripSep head else head

/-- `posixpath.split` (100-109). -/
def psplit (p : Str) : Str × Str := (dirname p, tailPart p)

/-- `base_abs if base_abs.endswith(os.sep) else base_abs + os.sep` (_core.py:783, 794). -/
def sepBase (b : Str) : Str := if endsWithSep b then b else b ++ ['/']

/-- `path_abs == base_abs or path_abs.startswith(sep_base)` : the negation of the raise
condition at _core.py:784 and 795 (character level). -/
def contained (base path : Str) : Bool :=
  path == base || (sepBase base).isPrefixOf path

/-- `ExternalTensor.path` (_core.py:726-728). -/
def tensorPath (base loc : Str) : Str := pjoin base loc

/-- Check 1 (_core.py:779-789): passes iff `true`. -/
def check1 (cwd base loc : Str) : Bool :=
  contained (abspath cwd base) (abspath cwd (tensorPath base loc))

/-- The non-empty pieces of a path string: its components. -/
def comps (p : Str) : List Str := (splitSep p).filter (· ≠ [])

/-- `load()`'s base-directory derivation (_io.py:34-37) **as fixed for D23**: an empty dirname
(bare file name) becomes "." . -/
def loadBase (modelPath : Str) : Str :=
  let d := dirname modelPath
  if d = [] then DOT else d

/-- The derivation as it is in the unfixed tree (`os.path.dirname(path)`), kept to state D23. -/
def loadBaseUnfixed (modelPath : Str) : Str := dirname modelPath

end IrVerif.Path

/-
General (nested) transition-system model of the concurrent external-data writer of
`src/onnx_ir/external_data.py`: a tree of worker pools.

* pool 0 belongs to the main thread: `_write_parallel` 599-650 (single file: one job per tensor,
  `as_completed`, cancel on error) or `_write_external_tensors` 858-895 (one job per shard, futures
  read in submission order, `with executor` = shutdown without cancel).
* a shard job is either *serial* (`_write_serial` 573-586: the driver thread writes the shard's
  tensors one after the other) or *sub* (`workers_per_shard >= 2` and more than one tensor: the
  driver thread runs `_write_parallel` for the shard, i.e. it becomes the owner of an inner pool whose
  jobs are the shard's tensors).  All pools share the one `_ByteBudget` (863, 888), the per-tensor
  object locks (806, 889) and the outer callback lock (864-873); an inner `_write_parallel` has in
  addition its own callback lock which is taken *before* the outer one.  Lock order per tensor
  (`_write_tensor`): tensor-object lock, then the callback lock(s) around the callback only, then
  the budget.

Threads: the owner of every pool (main thread for pool 0, a driver thread for an inner pool) and
the pool threads.  Pool threads of one pool are interchangeable.  Labels: `owner q c` (owner of pool
`q`; `c` = which completed future `as_completed` yields), `take q` / `exit q` (some idle thread of
pool `q` dequeues a job / leaves after shutdown), `task i` (the thread working on tensor `i`).

Granularity as in Model/Writer.lean: one step per blocking operation and per user-code body.
Only core Lean is imported (linked into `irdriver`).
-/
namespace IrVerif.WriterN

structure Tensor where
  obj : Nat
  size : Nat
  fails : Bool
  cbFails : Bool
  /-- the (serial) job this tensor belongs to -/
  job : Nat
  file : Nat
  off : Nat
  data : List Nat
deriving Repr, DecidableEq, Inhabited

structure PoolCfg where
  /-- number of pool threads (`max_workers` of the executor) -/
  size : Nat
  /-- `true`: `as_completed` + `shutdown(cancel_futures=True)` on error (`_write_parallel`);
      `false`: futures read in submission order, plain `shutdown(wait=True)` (875-894) -/
  asCompleted : Bool
  /-- jobs submitted to this pool, in submission order -/
  jobs : List Nat
  /-- tasks of this pool take the pool's own callback lock before the outer one (nested writer) -/
  innerCb : Bool
  /-- the job (of another pool) that consists in owning this pool; `none` for pool 0 -/
  parent : Option Nat
deriving Repr, DecidableEq, Inhabited

structure JobCfg where
  pool : Nat
  /-- first tensor (serial jobs) -/
  start : Nat
  /-- `some q`: running the job = owning pool `q` -/
  sub : Option Nat
deriving Repr, DecidableEq, Inhabited

structure Cfg where
  capacity : Nat
  nObjs : Nat
  tensors : List Tensor
  pools : List PoolCfg
  jobs : List JobCfg
  files : List (List Nat)
deriving Repr, Inhabited

namespace Cfg
def n (c : Cfg) : Nat := c.tensors.length
def nJobs (c : Cfg) : Nat := c.jobs.length
def nPools (c : Cfg) : Nat := c.pools.length
def size (c : Cfg) (i : Nat) : Nat := (c.tensors.getD i default).size
def obj (c : Cfg) (i : Nat) : Nat := (c.tensors.getD i default).obj
def fails (c : Cfg) (i : Nat) : Bool := (c.tensors.getD i default).fails
def cbFails (c : Cfg) (i : Nat) : Bool := (c.tensors.getD i default).cbFails
def job (c : Cfg) (i : Nat) : Nat := (c.tensors.getD i default).job
def file (c : Cfg) (i : Nat) : Nat := (c.tensors.getD i default).file
def off (c : Cfg) (i : Nat) : Nat := (c.tensors.getD i default).off
def data (c : Cfg) (i : Nat) : List Nat := (c.tensors.getD i default).data
def pool (c : Cfg) (q : Nat) : PoolCfg := c.pools.getD q default
def jobc (c : Cfg) (j : Nat) : JobCfg := c.jobs.getD j default
/-- the pool whose thread writes tensor `i` -/
def poolOf (c : Cfg) (i : Nat) : Nat := (c.jobc (c.job i)).pool
def hasNext (c : Cfg) (i : Nat) : Bool := decide (i + 1 < c.n) && (c.job (i + 1) == c.job i)
end Cfg

inductive Pc
  | notStarted
  /-- about to `with self._tensor_write_locks[id(tensor)]` (`_write_tensor`): the tensor lock is the
      outermost lock, the callback runs under it -/
  | tAcq
  /-- about to `with callback_lock` of the inner `_write_parallel`, nested writers only -/
  | cbAcqIn
  /-- about to take the lock that directly guards the callback (single file: `callback_lock`;
      shards: the lock of `_locked_callback`) -/
  | cbAcq
  | cbBody
  | bAcq
  | waiting
  | woken
  | write
  | bRel (ok : Bool)
  | done (ok : Bool)
deriving Repr, DecidableEq, Inhabited, Hashable

inductive Fut
  | pending | running | cancelled | ok | err
deriving Repr, DecidableEq, Inhabited, Hashable

inductive OwnerPc
  /-- the executor does not exist yet (inner pools before their shard is taken) -/
  | notCreated
  | submit (k : Nat)
  | collect
  | join (err : Bool)
  /-- the owner left the executor (`err`: with an exception) -/
  | closed (err : Bool)
deriving Repr, DecidableEq, Inhabited, Hashable

structure PoolSt where
  owner : OwnerPc
  queue : List Nat
  collected : List Nat
  idle : Nat
  exited : Nat
  shutdown : Bool
deriving Repr, DecidableEq, Inhabited, Hashable

structure State where
  pools : List PoolSt
  futs : List Fut
  tasks : List Pc
  /-- the lock that guards the callback body -/
  cbLock : Bool
  /-- per pool: the inner writer's own callback lock -/
  cbIn : List Bool
  tLocks : List Bool
  inFlight : Nat
  oversized : Bool
  log : List Nat
  files : List (List Nat)
deriving Repr, DecidableEq, Inhabited, Hashable

inductive Label
  | owner (q : Nat) (c : Nat)
  | take (q : Nat)
  | exit (q : Nat)
  | task (i : Nat)
deriving Repr, DecidableEq, Inhabited

def initPool (cfg : Cfg) (q : Nat) : PoolSt :=
  if q = 0 then
    { owner := .submit 0, queue := [], collected := [], idle := (cfg.pool 0).size, exited := 0
      shutdown := false }
  else
    { owner := .notCreated, queue := [], collected := [], idle := 0, exited := 0, shutdown := false }

def init (cfg : Cfg) : State where
  pools := (List.range cfg.nPools).map (initPool cfg)
  futs := List.replicate cfg.nJobs .pending
  tasks := List.replicate cfg.n .notStarted
  cbLock := false
  cbIn := List.replicate cfg.nPools false
  tLocks := List.replicate cfg.nObjs false
  inFlight := 0
  oversized := false
  log := []
  files := cfg.files

def wake : Pc → Pc
  | .waiting => .woken
  | p => p

def writeAt (f : List Nat) (off : Nat) (d : List Nat) : List Nat :=
  if d.isEmpty then f
  else
    let f' := f ++ List.replicate (off + d.length - f.length) 0
    f'.take off ++ d ++ f'.drop (off + d.length)

def writeTask (cfg : Cfg) (fs : List (List Nat)) (i : Nat) : List (List Nat) :=
  let t := cfg.tensors.getD i default
  fs.set t.file (writeAt (fs.getD t.file []) t.off t.data)

/-- first program counter of a tensor: the tensor lock -/
def firstPc (_cfg : Cfg) (_q : Nat) : Pc := .tAcq

/-- program counter after the tensor lock has been taken, for a thread of pool `q` -/
def afterT (cfg : Cfg) (q : Nat) : Pc := if (cfg.pool q).innerCb then .cbAcqIn else .cbAcq

/-- a pool thread of pool `q` returns to `queue.get` -/
def addIdle (ps : List PoolSt) (q : Nat) : List PoolSt :=
  let P' : PoolSt := { ps.getD q default with idle := (ps.getD q default).idle + 1 }
  ps.set q P'

/-- `ThreadPoolExecutor(max_workers=...)` of an inner writer: pool `q'` comes into existence, its
    owner is about to `submit` the first tensor -/
def createPool (cfg : Cfg) (ps : List PoolSt) (q' : Nat) : List PoolSt :=
  let Q : PoolSt := { ps.getD q' default with owner := .submit 0, idle := (cfg.pool q').size }
  ps.set q' Q

/-- the pool thread leaves tensor `i` (see Model/Writer.lean `finishTask`) -/
def finishTask (cfg : Cfg) (s : State) (i : Nat) (ok : Bool) : State :=
  if ok && cfg.hasNext i then
    { s with tasks := (s.tasks.set i (.done ok)).set (i + 1) (firstPc cfg (cfg.poolOf i)) }
  else
    { s with tasks := s.tasks.set i (.done ok)
             futs := s.futs.set (cfg.job i) (if ok then .ok else .err)
             pools := addIdle s.pools (cfg.poolOf i) }

def budgetTry (cfg : Cfg) (s : State) (i : Nat) : State :=
  if cfg.size i > cfg.capacity then
    if s.oversized then { s with tasks := s.tasks.set i .waiting }
    else { s with oversized := true, tasks := s.tasks.set i .write }
  else
    if s.inFlight + cfg.size i ≤ cfg.capacity then
      { s with inFlight := s.inFlight + cfg.size i, tasks := s.tasks.set i .write }
    else { s with tasks := s.tasks.set i .waiting }

def budgetRelease (cfg : Cfg) (s : State) (i : Nat) (ok : Bool) : State :=
  finishTask cfg
    { s with oversized := if cfg.size i > cfg.capacity then false else s.oversized
             inFlight := if cfg.size i > cfg.capacity then s.inFlight else s.inFlight - cfg.size i
             tasks := s.tasks.map wake
             tLocks := s.tLocks.set (cfg.obj i) false } i ok

def stepTask (cfg : Cfg) (s : State) (i : Nat) : Option State :=
  match s.tasks[i]? with
  | some .tAcq =>
      if s.tLocks.getD (cfg.obj i) false then none
      else some { s with tLocks := s.tLocks.set (cfg.obj i) true
                         tasks := s.tasks.set i (afterT cfg (cfg.poolOf i)) }
  | some .cbAcqIn =>
      if s.cbIn.getD (cfg.poolOf i) false then none
      else some { s with cbIn := s.cbIn.set (cfg.poolOf i) true, tasks := s.tasks.set i .cbAcq }
  | some .cbAcq =>
      if s.cbLock then none
      else some { s with cbLock := true, tasks := s.tasks.set i .cbBody }
  | some .cbBody =>
      -- callback body, then the `with` blocks are left: outer callback lock, then the inner one
      let s1 : State := { s with log := s.log ++ [i], cbLock := false
                                 cbIn := if (cfg.pool (cfg.poolOf i)).innerCb
                                   then s.cbIn.set (cfg.poolOf i) false else s.cbIn }
      if cfg.cbFails i then
        -- the exception also leaves `with tensor lock`
        some (finishTask cfg { s1 with tLocks := s1.tLocks.set (cfg.obj i) false } i false)
      else some { s1 with tasks := s1.tasks.set i .bAcq }
  | some .bAcq => some (budgetTry cfg s i)
  | some .woken => some (budgetTry cfg s i)
  | some .write =>
      if cfg.fails i then some { s with tasks := s.tasks.set i (.bRel false) }
      else some { s with files := writeTask cfg s.files i, tasks := s.tasks.set i (.bRel true) }
  | some (.bRel ok) => some (budgetRelease cfg s i ok)
  | _ => none

def futDone (s : State) (j : Nat) : Option Bool :=
  match s.futs[j]? with
  | some .ok => some true
  | some .err => some false
  | _ => none

/-- the owner of pool `q` (state `P`) consumed future `j` -/
def collectOne (cfg : Cfg) (s : State) (q : Nat) (P : PoolSt) (j : Nat) (ok : Bool) : State :=
  if ok then
    let col := j :: P.collected
    if col.length = (cfg.pool q).jobs.length then
      let P' : PoolSt := { P with collected := col, shutdown := true, owner := .join false }
      { s with pools := s.pools.set q P' }
    else
      let P' : PoolSt := { P with collected := col }
      { s with pools := s.pools.set q P' }
  else if (cfg.pool q).asCompleted then
    let P' : PoolSt :=
      { P with collected := j :: P.collected, shutdown := true, owner := .join true, queue := [] }
    { s with pools := s.pools.set q P'
             futs := P.queue.foldl (fun fs x => fs.set x .cancelled) s.futs }
  else
    let P' : PoolSt := { P with collected := j :: P.collected, shutdown := true, owner := .join true }
    { s with pools := s.pools.set q P' }

def stepOwner (cfg : Cfg) (s : State) (q c : Nat) : Option State :=
  match s.pools[q]? with
  | none => none
  | some P =>
    match P.owner with
    | .notCreated => none
    | .submit k =>
        match (cfg.pool q).jobs[k]? with
        | none => none
        | some j =>
            let P' : PoolSt :=
              { P with queue := P.queue ++ [j]
                       owner := if k + 1 < (cfg.pool q).jobs.length then .submit (k + 1) else .collect }
            some { s with pools := s.pools.set q P' }
    | .collect =>
        if (cfg.pool q).asCompleted then
          if P.collected.contains c || !(cfg.pool q).jobs.contains c then none
          else (futDone s c).map (collectOne cfg s q P c)
        else
          match (cfg.pool q).jobs[P.collected.length]? with
          | none => none
          | some j => (futDone s j).map (collectOne cfg s q P j)
    | .join e =>
        if P.exited = (cfg.pool q).size then
          let P' : PoolSt := { P with owner := .closed e }
          let ps := s.pools.set q P'
          match (cfg.pool q).parent with
          | none => some { s with pools := ps }
          | some jp =>
              -- the driver thread leaves `_write_parallel`: its shard future completes and it
              -- returns to the outer pool's queue
              some { s with pools := addIdle ps (cfg.jobc jp).pool
                            futs := s.futs.set jp (if e then .err else .ok) }
        else none
    | .closed _ => none

def stepTake (cfg : Cfg) (s : State) (q : Nat) : Option State :=
  match s.pools[q]? with
  | none => none
  | some P =>
    match P.queue with
    | [] => none
    | j :: rest =>
        if P.idle = 0 then none
        else
          let P' : PoolSt := { P with queue := rest, idle := P.idle - 1 }
          let ps := s.pools.set q P'
          let fs := s.futs.set j .running
          match (cfg.jobc j).sub with
          | none =>
              some { s with pools := ps, futs := fs
                            tasks := s.tasks.set (cfg.jobc j).start (firstPc cfg q) }
          | some q' =>
              -- `_write_parallel` of the shard: the executor is created, first `submit` pending
              some { s with pools := createPool cfg ps q', futs := fs }

def stepExit (_cfg : Cfg) (s : State) (q : Nat) : Option State :=
  match s.pools[q]? with
  | none => none
  | some P =>
      if P.queue.isEmpty && P.shutdown && decide (P.idle > 0) then
        let P' : PoolSt := { P with idle := P.idle - 1, exited := P.exited + 1 }
        some { s with pools := s.pools.set q P' }
      else none

def step (cfg : Cfg) (s : State) : Label → Option State
  | .owner q c => stepOwner cfg s q c
  | .take q => stepTake cfg s q
  | .exit q => stepExit cfg s q
  | .task i => stepTask cfg s i

def terminal (s : State) : Bool :=
  match (s.pools.getD 0 default).owner with
  | .closed _ => true
  | _ => false

def run (cfg : Cfg) (s : State) : List Label → Option State
  | [] => some s
  | l :: ls => match step cfg s l with
    | none => none
    | some s' => run cfg s' ls

inductive Reachable (cfg : Cfg) : State → Prop
  | init : Reachable cfg (init cfg)
  | step {s s' : State} (l : Label) : Reachable cfg s → step cfg s l = some s' → Reachable cfg s'

def serialFiles (cfg : Cfg) : List (List Nat) :=
  (List.range cfg.n).foldl (writeTask cfg) cfg.files

/-- decidable well-formedness of a configuration (see `WF` in Lemmas/WriterNInv.lean) -/
def wfb (cfg : Cfg) : Bool :=
  decide (0 < cfg.nPools) && decide ((cfg.pool 0).parent = none) &&
  (List.range cfg.nPools).all (fun q =>
    decide (q ≠ 0 → (cfg.pool q).parent.isSome = true) &&
    decide (0 < (cfg.pool q).size) && decide (0 < (cfg.pool q).jobs.length) &&
    (match (cfg.pool q).parent with
     | none => true
     | some jp => decide (jp < cfg.nJobs) && decide ((cfg.jobc jp).sub = some q))) &&
  -- beyond the list `cfg.pool q` is the default (no jobs), so `jobs_nodup` / `job_pool` are checked in range
  (List.range cfg.nPools).all (fun q =>
    decide ((cfg.pool q).jobs.Nodup) &&
    (cfg.pool q).jobs.all (fun j => decide (j < cfg.nJobs) && decide ((cfg.jobc j).pool = q))) &&
  (List.range cfg.nJobs).all (fun j =>
    decide ((cfg.jobc j).pool < cfg.nPools) && (cfg.pool (cfg.jobc j).pool).jobs.contains j &&
    (match (cfg.jobc j).sub with
     | none =>
        decide ((cfg.jobc j).start < cfg.n) && decide (cfg.job (cfg.jobc j).start = j) &&
        (List.range (cfg.jobc j).start).all (fun i => decide (cfg.job i ≠ j))
     | some q' =>
        decide (q' < cfg.nPools) && decide ((cfg.pool q').parent = some j) &&
        decide ((cfg.jobc j).pool < q'))) &&
  (List.range cfg.n).all (fun i =>
    decide (cfg.job i < cfg.nJobs) && decide ((cfg.jobc (cfg.job i)).sub = none) &&
    decide (cfg.obj i < cfg.nObjs)) &&
  (List.range cfg.n).all (fun k => (List.range k).all (fun i =>
    decide (cfg.job k = cfg.job i → cfg.job (i + 1) = cfg.job i)))

/-- decidable layout condition (see `Layout` in Lemmas/WriterNFiles.lean) -/
def layoutb (cfg : Cfg) : Bool :=
  (List.range cfg.n).all (fun i => decide (cfg.file i < cfg.files.length)) &&
  (List.range cfg.n).all (fun i => (List.range cfg.n).all (fun j =>
    decide (i ≠ j → cfg.file i = cfg.file j →
      cfg.off i + (cfg.data i).length ≤ cfg.off j ∨ cfg.off j + (cfg.data j).length ≤ cfg.off i)))

/-- decidable form of `Prealloc` (Lemmas/Writer*Files.lean): the initial images are all zeros
    and not longer than the largest end -/
def preallocb (cfg : Cfg) : Bool :=
  cfg.files.all (fun f => f.all (fun b => b == 0)) &&
  (List.range cfg.files.length).all (fun φ => (cfg.files.getD φ []).isEmpty ||
    (List.range cfg.n).any (fun i => decide (cfg.file i = φ) && !(cfg.data i).isEmpty &&
      decide ((cfg.files.getD φ []).length = cfg.off i + (cfg.data i).length)))

end IrVerif.WriterN

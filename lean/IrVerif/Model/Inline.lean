import IrVerif.Model.Sem
import IrVerif.Model.Passes
/-!
# Model/Inline.lean — model-local functions: call semantics, InlinePass, RemoveUnusedFunctionsPass,
RemoveUnusedOpsetsPass (property C05)

Extends the graph IR of Model/Sem.lean (which it does not change):

* `FAttr`: a node attribute is a value or a REFERENCE to an attribute parameter of the enclosing
  function (`Attr.is_ref()`, `ref_attr_name`; src/onnx_ir/_core.py).
* `Func`: a model-local function = identifier, attribute parameters with optional defaults
  (`Function.attributes`: an `Attr` whose `value is None` has no default), inputs, outputs, body nodes.
* semantics `evalGF`: a node whose operator identifier names a function of the model denotes the
  denotation of that function's body under the call's inputs (positionally; an input that is not
  supplied is absent) and attribute bindings (call-site attributes, then the defaults of the parameters
  the call does not mention); a reference attribute resolves in the binding of the enclosing call and is
  absent when that binding has no entry (ONNX IR: optional attributes).  Calls are unrolled to a depth
  (`fenv`); for a non-recursive call graph every depth >= the number of functions gives the same
  denotation (Lemmas/InlineSem.lean).
* an absent input: ONNX identifies an omitted trailing input with an empty one; inside a function body an
  input bound to a function input that the call did not supply is absent as well, so the evaluated
  argument list is trimmed at the VALUE level (`trimV`) before the operator sees it.
* `inlineModel`: transcription of src/onnx_ir/passes/common/inliner.py (InlinePass.call,
  _inline_calls_in, _instantiate_call) with src/onnx_ir/_cloner.py (Cloner.clone_node, clone_attr,
  clone_graph) and _convenience.replace_nodes_and_values.

Names, types, shapes, metadata and opset VERSIONS are not part of this IR.  `_make_unique_name` ignores
its `callstack` argument (inliner.py:31), so the call-stack bookkeeping (`_node_context`) is not
observable in the result and is not transcribed.  Core Lean only.
-/
namespace IrVerif.Inline
open IrVerif.Sem IrVerif.Passes

/-- an attribute of a node: a value, or a reference to attribute parameter `param` of the enclosing
    function (`RefAttr(name, ref_attr_name, type)`) -/
inductive FAttr where
  | val (a : AttrData)
  | ref (param : String)
deriving DecidableEq, Repr, Inhabited

mutual
inductive FGraph where
  | mk (inputs : List VId) (outputs : List VId) (inits : List (VId × Tensor)) (nodes : List FNode)
inductive FNode where
  | mk (op : OpId) (attrs : List (String × FAttr)) (ins : List (Option VId)) (outs : List VId)
       (bodies : List FGraph)
end

instance : Inhabited FGraph := ⟨.mk [] [] [] []⟩
instance : Inhabited FNode := ⟨.mk default [] [] [] []⟩

namespace FGraph
def inputs : FGraph → List VId | .mk i _ _ _ => i
def outputs : FGraph → List VId | .mk _ o _ _ => o
def inits : FGraph → List (VId × Tensor) | .mk _ _ t _ => t
def nodes : FGraph → List FNode | .mk _ _ _ n => n
end FGraph

namespace FNode
def op : FNode → OpId | .mk o _ _ _ _ => o
def attrs : FNode → List (String × FAttr) | .mk _ a _ _ _ => a
def ins : FNode → List (Option VId) | .mk _ _ i _ _ => i
def outs : FNode → List VId | .mk _ _ _ o _ => o
def bodies : FNode → List FGraph | .mk _ _ _ _ b => b
end FNode

/-- `ir.Function`: identifier, attribute parameters (name, default), inputs, outputs, body;
    `domains` = the domains of its `opset_imports` -/
structure Func where
  id : OpId
  params : List (String × Option AttrData)
  inputs : List VId
  outputs : List VId
  nodes : List FNode
  domains : List String
deriving Inhabited

/-- `ir.Model`: main graph, `model.functions` (dictionary order), domains of `model.opset_imports` -/
structure FModel where
  graph : FGraph
  funcs : List Func
  domains : List String
deriving Inhabited

/-- `model.functions[op_id]` (dictionary keyed by `Function.identifier()`) -/
def findFunc (fs : List Func) (op : OpId) : Option Func := fs.find? (fun f => f.id == op)

/-! ## semantics -/

variable {Val : Type}

/-- drop trailing absent arguments -/
def trimV : List (Option Val) → List (Option Val)
  | [] => []
  | a :: rest => if a.isNone && (trimV rest).isEmpty then [] else a :: trimV rest

/-- a reference attribute reads the binding of the enclosing call; absent if it has no entry -/
def resolveAttr (α : List (String × AttrData)) : String × FAttr → Option (String × AttrData)
  | (k, .val a) => some (k, a)
  | (k, .ref p) => (α.lookup p).map (fun a => (k, a))

def resolveAttrs (α : List (String × AttrData)) (attrs : List (String × FAttr)) : List (String × AttrData) :=
  attrs.filterMap (resolveAttr α)

/-- the attribute binding of a call: the call's attributes, then the defaults of the parameters the call
    does not bind -/
def bindParams (params : List (String × Option AttrData)) (cattrs : List (String × AttrData)) :
    List (String × AttrData) :=
  cattrs ++ params.filterMap (fun p =>
    if (cattrs.map Prod.fst).contains p.1 then none else p.2.map (fun d => (p.1, d)))

/-- denotation of a function: call attributes, arguments ↦ results -/
abbrev FunDen (Val : Type) := List (String × AttrData) → List (Option Val) → List (Option Val)
/-- the functions visible to a call -/
abbrev FEnv (Val : Type) := OpId → Option (FunDen Val)

/-- results of a node that is not a call: `nodeResults` of Model/Sem.lean, and in addition an `Identity` whose
    (trimmed) argument list is empty, i.e. whose argument is ABSENT, yields an absent result.  ONNX has no such
    case (the input of Identity is required); the inliner forwards a function input that the function returns
    through an Identity node (inliner.py:267-284), and that input may be one the enclosing call did not supply. -/
def nodeResultsF (I : Interp Val) (op : OpId) (attrs : List (String × AttrData)) (outs : List VId)
    (bodies : List (BodyFn Val)) (args : List (Option Val)) : List (Option Val) :=
  if isIdentityOp op && args.isEmpty then [none] else nodeResults I op attrs outs bodies args

mutual
def evalGF (I : Interp Val) (Φ : FEnv Val) (α : List (String × AttrData)) :
    FGraph → Env Val → List Val → List (Option Val)
  | .mk inputs outputs inits nodes, ρ, xs =>
    let ρ0 := bindInits I ρ inits
    let free := inputs.filter (fun v => !(inits.map Prod.fst).contains v)
    let ρ1 := ρ0.bind free (xs.map some)
    outputs.map (evalNodesF I Φ α nodes ρ1)
def evalNodesF (I : Interp Val) (Φ : FEnv Val) (α : List (String × AttrData)) : List FNode → Env Val → Env Val
  | [], ρ => ρ
  | n :: ns, ρ => evalNodesF I Φ α ns (evalNF I Φ α n ρ)
def evalNF (I : Interp Val) (Φ : FEnv Val) (α : List (String × AttrData)) : FNode → Env Val → Env Val
  | .mk op attrs ins outs bodies, ρ =>
    ρ.bind outs (match Φ op with
      | some F => F (resolveAttrs α attrs) (trimV (evalArgs ρ ins))
      | none => nodeResultsF I op (resolveAttrs α attrs) outs (evalBodiesF I Φ α bodies ρ)
          (trimV (evalArgs ρ ins)))
def evalBodiesF (I : Interp Val) (Φ : FEnv Val) (α : List (String × AttrData)) :
    List FGraph → Env Val → List (BodyFn Val)
  | [], _ => []
  | b :: bs, ρ => (fun xs => evalGF I Φ α b ρ xs) :: evalBodiesF I Φ α bs ρ
end

/-- the body of `f` under the binding of the call and the call's arguments (a function body has no
    outer scope: it starts from the empty environment) -/
def funcDen (I : Interp Val) (Φ : FEnv Val) (f : Func) : FunDen Val := fun cattrs args =>
  f.outputs.map (evalNodesF I Φ (bindParams f.params cattrs) f.nodes (Env.empty.bind f.inputs args))

/-- calls unrolled to depth `d`: at depth 0 a call is an operator like any other (interpreted by `sem`) -/
def fenv (I : Interp Val) (fs : List Func) : Nat → FEnv Val
  | 0 => fun _ => none
  | d + 1 => fun op => (findFunc fs op).map (funcDen I (fenv I fs d))

/-- what the model computes with calls unrolled to depth `d` -/
def denoteAt (d : Nat) (I : Interp Val) (m : FModel) (xs : List Val) : List (Option Val) :=
  evalGF I (fenv I m.funcs d) [] m.graph Env.empty xs

/-- what the model computes: depth = number of functions (enough for a non-recursive call graph) -/
def denoteF (I : Interp Val) (m : FModel) (xs : List Val) : List (Option Val) :=
  denoteAt m.funcs.length I m xs

/-! ## syntactic measures -/

mutual
/-- `p` holds of the operator of every node (deep) -/
def opsAllG (p : OpId → Bool) : FGraph → Bool
  | .mk _ _ _ nodes => opsAllNodes p nodes
def opsAllNodes (p : OpId → Bool) : List FNode → Bool
  | [] => true
  | n :: ns => opsAllN p n && opsAllNodes p ns
def opsAllN (p : OpId → Bool) : FNode → Bool
  | .mk op _ _ _ bodies => p op && opsAllBodies p bodies
def opsAllBodies (p : OpId → Bool) : List FGraph → Bool
  | [] => true
  | b :: bs => opsAllG p b && opsAllBodies p bs
end

mutual
/-- operator identifiers of all nodes (deep), in `RecursiveGraphIterator` order -/
def opsG : FGraph → List OpId
  | .mk _ _ _ nodes => opsNodes nodes
def opsNodes : List FNode → List OpId
  | [] => []
  | n :: ns => opsN n ++ opsNodes ns
def opsN : FNode → List OpId
  | .mk op _ _ _ bodies => op :: opsBodies bodies
def opsBodies : List FGraph → List OpId
  | [] => []
  | b :: bs => opsG b ++ opsBodies bs
end

/-- `lvl fs d op`: `op` is not a function of the model, or its call tree has depth at most `d` -/
def lvl (fs : List Func) : Nat → OpId → Bool
  | 0, op => (findFunc fs op).isNone
  | d + 1, op =>
    match findFunc fs op with
    | none => true
    | some f => opsAllNodes (lvl fs d) f.nodes

/-- erasure to the IR of Model/Sem.lean (reference attributes become opaque values): used to state the
    syntactic validity predicates of Model/Sem.lean for this IR -/
def eraseAttr : FAttr → AttrData
  | .val a => a
  | .ref _ => .opaque 1000 0

mutual
def eraseG : FGraph → Graph
  | .mk inputs outputs inits nodes => .mk inputs outputs inits (eraseNodes nodes)
def eraseNodes : List FNode → List Node
  | [] => []
  | n :: ns => eraseN n :: eraseNodes ns
def eraseN : FNode → Node
  | .mk op attrs ins outs bodies => .mk op (attrs.map (fun p => (p.1, eraseAttr p.2))) ins outs (eraseBodies bodies)
def eraseBodies : List FGraph → List Graph
  | [] => []
  | b :: bs => eraseG b :: eraseBodies bs
end

def Func.graph (f : Func) : FGraph := .mk f.inputs f.outputs [] f.nodes

def eraseModel (m : FModel) : Model := ⟨eraseG m.graph, m.funcs.map (fun f => eraseG f.graph)⟩

/-! ## Cloner (src/onnx_ir/_cloner.py) as used by the inliner:
`Cloner(attr_map=attributes, value_map=value_map, resolve_ref_attrs=True)` -/

/-- `Cloner._value_map`: newest first; `none` = the function input was not supplied by the call -/
abbrev VMap := List (VId × Option VId)
def mapV (vm : VMap) (v : VId) : Option VId := (vm.lookup v).join

/-- `Cloner.clone_attr` (_cloner.py:113-154) for non-graph attributes with `resolve_ref_attrs=True`: a
    reference attribute is replaced by the call-site attribute of that name (renamed to `key`), by a
    reference to the outer parameter when that attribute is itself a reference, or dropped -/
def cloneAttr (am : List (String × FAttr)) : String × FAttr → Option (String × FAttr)
  | (k, .val a) => some (k, .val a)
  | (k, .ref p) =>
    match am.lookup p with
    | some (.val a) => some (k, .val a)
    | some (.ref q) => some (k, .ref q)
    | none => none

def freshIds (next n : Nat) : List VId := List.range' next n

mutual
/-- `Cloner._clone_graph`: new values for inputs and initializers (a value that is both gets one new
    value: excluded by `validF`, where the two lists are disjoint), nodes, outputs looked up.  The value
    map entries made inside stay inside (value identities are unique, so nothing outside can hit them). -/
def cloneG (am : List (String × FAttr)) (vm : VMap) (next : Nat) : FGraph → FGraph × Nat
  | .mk inputs outputs inits nodes =>
    let inputs' := freshIds next inputs.length
    let initIds' := freshIds (next + inputs.length) inits.length
    let vm1 := inputs.zip (inputs'.map some) ++ ((inits.map Prod.fst).zip (initIds'.map some) ++ vm)
    let r := cloneNodes am vm1 (next + inputs.length + inits.length) nodes
    (.mk inputs' (outputs.map (fun v => (mapV r.2.1 v).getD v)) (initIds'.zip (inits.map Prod.snd)) r.1, r.2.2)
/-- `[cloner.clone_node(n) for n in ...]`: nodes, value map after, next fresh id -/
def cloneNodes (am : List (String × FAttr)) (vm : VMap) (next : Nat) : List FNode → List FNode × VMap × Nat
  | [] => ([], vm, next)
  | n :: ns =>
    let r := cloneN am vm next n
    let rs := cloneNodes am r.2.1 r.2.2 ns
    (r.1 :: rs.1, rs.2.1, rs.2.2)
/-- `Cloner.clone_node` (_cloner.py:170-244): inputs through the value map, attributes cloned (graph
    attributes first create their values), then the node with new outputs -/
def cloneN (am : List (String × FAttr)) (vm : VMap) (next : Nat) : FNode → FNode × VMap × Nat
  | .mk op attrs ins outs bodies =>
    let rb := cloneBodies am vm next bodies
    let outs' := freshIds rb.2 outs.length
    (.mk op (attrs.filterMap (cloneAttr am)) (ins.map (fun o => o.bind (mapV vm))) outs' rb.1,
      outs.zip (outs'.map some) ++ vm, rb.2 + outs.length)
def cloneBodies (am : List (String × FAttr)) (vm : VMap) (next : Nat) : List FGraph → List FGraph × Nat
  | [] => ([], next)
  | b :: bs =>
    let r := cloneG am vm next b
    let rs := cloneBodies am vm r.2 bs
    (r.1 :: rs.1, rs.2)
end

/-- inliner.py:221-225: function inputs ↦ call inputs by position, the rest ↦ None -/
def zipPad : List VId → List (Option VId) → VMap
  | [], _ => []
  | v :: vs, [] => (v, none) :: zipPad vs []
  | v :: vs, c :: cs => (v, c) :: zipPad vs cs

/-- inliner.py:199-206: `{**node.attributes, **default_attr_values}` -/
def attrMap (params : List (String × Option AttrData)) (cattrs : List (String × FAttr)) : List (String × FAttr) :=
  cattrs ++ params.filterMap (fun p =>
    if (cattrs.map Prod.fst).contains p.1 then none else p.2.map (fun d => (p.1, .val d)))

structure Inst where
  nodes : List FNode
  outvals : List VId
  next : Nat
  /-- a function output is bound to None: `replace_nodes_and_values` raises (AttributeError) -/
  bad : Bool

def identityOp : OpId := ⟨"", "Identity", ""⟩

/-- outputs of the nodes of one node list (not descending into bodies) -/
def outsTopF : List FNode → List VId
  | [] => []
  | n :: ns => n.outs ++ outsTopF ns

/-- inliner.py:267-284 (the repair of D300): the value bound to a function output that is not produced by one of
    the new nodes - a function input that the function returns, i.e. a value of the caller - is forwarded
    through a new `Identity` node, so that the value that replaces the call's output is a new value.
    `produced` = the outputs of the new nodes.  A function output bound to None (a function input that the call
    does not supply) is passed on as None and `replace_nodes_and_values` raises on it (`bad`); what the model
    builds in that case is not compared with anything (`inlineModel` answers with the unchanged model): an
    Identity node without input, whose result is absent like the value it stands for. -/
def fwdOuts (vm : VMap) : List VId → List VId → Nat → Inst
  | _, [], next => ⟨[], [], next, false⟩
  | produced, v :: vs, next =>
    match mapV vm v with
    | some w =>
      if produced.contains w then
        ⟨(fwdOuts vm produced vs next).nodes, w :: (fwdOuts vm produced vs next).outvals,
          (fwdOuts vm produced vs next).next, (fwdOuts vm produced vs next).bad⟩
      else
        ⟨.mk identityOp [] [some w] [next] [] :: (fwdOuts vm (next :: produced) vs (next + 1)).nodes,
          next :: (fwdOuts vm (next :: produced) vs (next + 1)).outvals,
          (fwdOuts vm (next :: produced) vs (next + 1)).next, (fwdOuts vm (next :: produced) vs (next + 1)).bad⟩
    | none =>
      ⟨.mk identityOp [] [none] [next] [] :: (fwdOuts vm produced vs (next + 1)).nodes,
        next :: (fwdOuts vm produced vs (next + 1)).outvals, (fwdOuts vm produced vs (next + 1)).next, true⟩

/-- `InlinePass._instantiate_call` (inliner.py:183-285) without its error exits (excluded by `validF`):
    the cloned body, the Identity nodes that forward returned function inputs, and the values that replace the
    call's outputs -/
def instantiate (f : Func) (cattrs : List (String × FAttr)) (cins : List (Option VId)) (next : Nat) : Inst :=
  let r := cloneNodes (attrMap f.params cattrs) (zipPad f.inputs cins) next f.nodes
  let fw := fwdOuts r.2.1 (outsTopF r.1) f.outputs r.2.2
  ⟨r.1 ++ fw.nodes, fw.outvals, fw.next, fw.bad⟩

/-! ## InlinePass -/

/-- pass state: next fresh value id; `_inlined_functions`; number of inlined call nodes; `stuck` = the
    unrolling budget of the MODEL ran out (the Python loop has no budget: it relies on `requires`); `raised` =
    an instantiated call returned None for one of its outputs (`Inst.bad`) or the call has not as many outputs as
    the function: the Python pass raises there (in `replace_nodes_and_values`) -/
structure ISt where
  next : Nat
  inlined : List OpId
  count : Nat
  stuck : Bool
  raised : Bool
deriving Inhabited

/-- result of processing a node list: state, new nodes, new outputs of the graph, replacements made -/
structure IRes where
  st : ISt
  nodes : List FNode
  outs : List VId
  σ : Subst

/-- how the nodes inserted for a call are processed when the iteration reaches them -/
abbrev Deeper := ISt → List FNode → ISt × List FNode × Subst

def ISt.addInlined (st : ISt) (op : OpId) (next : Nat) (bad : Bool) : ISt :=
  { st with next := next, inlined := if st.inlined.contains op then st.inlined else st.inlined ++ [op],
            count := st.count + 1, raised := st.raised || bad }

mutual
/-- `InlinePass._inline_calls_in(graph)` (inliner.py:270-339).  `σ` = the replacements
    (`replace_all_uses_with`, _convenience:528-564) made so far in enclosing graphs: uses inside
    subgraphs are replaced too; replacements made inside stay inside (their values are bound inside). -/
def inlG (tbl : List Func) (crit : OpId → Bool) (deeper : Deeper) (st : ISt) (σ : Subst) : FGraph → ISt × FGraph
  | .mk inputs outputs inits nodes =>
    ((inlNodes tbl crit deeper st σ outputs nodes).st,
      .mk inputs (inlNodes tbl crit deeper st σ outputs nodes).outs inits
        (inlNodes tbl crit deeper st σ outputs nodes).nodes)
/-- the loop `for node in graph` (inliner.py:304-338).  The linked list iterates over nodes inserted
    after the current one (_linked_list.py:106-123), so the nodes cloned for a call are visited next
    (`deeper`), before the rest of the list; the values that replace the call's outputs are read after
    that visit (the replacements made during it apply to them as to any other use).  `outs` = the
    current outputs of this graph (`replace_graph_outputs=True`).
    `replace_nodes_and_values(..., old_values=node.outputs, new_values=values)` raises when one of the first
    `len(node.outputs)` replacement values is None (AttributeError) and when the call has not exactly as many
    outputs as the function (`replace_all_uses_with`: ValueError "number of values and replacements must match",
    _convenience:540-548); both set `raised` (the call sites of a model that satisfies `validF` have at most as many
    outputs as the function: fewer is the case that raises). -/
def inlNodes (tbl : List Func) (crit : OpId → Bool) (deeper : Deeper) :
    ISt → Subst → List VId → List FNode → IRes
  | st, σ, outs, [] => ⟨st, [], outs, σ⟩
  | st, σ, outs, .mk op attrs ins nouts bodies :: ns =>
    match (if crit op then findFunc tbl op else none) with
    | some f =>
      let inst := instantiate f attrs (substIns σ ins) st.next
      let d := deeper (st.addInlined op inst.next (inst.bad || nouts.length != f.outputs.length)) inst.nodes
      let pairs := nouts.zip (inst.outvals.map d.2.2.app)
      let r := inlNodes tbl crit deeper d.1 (pairs ++ σ) (outs.map (fun o => (pairs.lookup o).getD o)) ns
      ⟨r.st, d.2.1 ++ r.nodes, r.outs, r.σ⟩
    | none =>
      let rb := inlBodies tbl crit deeper st σ bodies
      let r := inlNodes tbl crit deeper rb.1 σ outs ns
      ⟨r.st, .mk op attrs (substIns σ ins) nouts rb.2 :: r.nodes, r.outs, r.σ⟩
def inlBodies (tbl : List Func) (crit : OpId → Bool) (deeper : Deeper) (st : ISt) (σ : Subst) :
    List FGraph → ISt × List FGraph
  | [] => (st, [])
  | b :: bs =>
    ((inlBodies tbl crit deeper (inlG tbl crit deeper st σ b).1 σ bs).1,
      (inlG tbl crit deeper st σ b).2 :: (inlBodies tbl crit deeper (inlG tbl crit deeper st σ b).1 σ bs).2)
end

/-- the inserted nodes are processed like any node list, with one unit less of the unrolling budget; with
    no budget left a remaining call that the criterion accepts makes the run `stuck` -/
def inlAt (tbl : List Func) (crit : OpId → Bool) : Nat → Deeper
  | 0 => fun st ns =>
    ({ st with stuck := st.stuck || !(opsAllNodes (fun op => !(crit op && (findFunc tbl op).isSome)) ns) }, ns, [])
  | d + 1 => fun st ns =>
    ((inlNodes tbl crit (inlAt tbl crit d) st [] [] ns).st, (inlNodes tbl crit (inlAt tbl crit d) st [] [] ns).nodes,
      (inlNodes tbl crit (inlAt tbl crit d) st [] [] ns).σ)

def replaceFunc (tbl : List Func) (f' : Func) : List Func :=
  tbl.map (fun f => if f.id == f'.id then f' else f)

/-- the loop over `model.functions.items()` (inliner.py:169-175): a function that is not (yet) in
    `_inlined_functions` has the calls in its body inlined in place; later clones see the new body -/
def inlFuncs (crit : OpId → Bool) (budget : Nat) : ISt → List Func → List OpId → ISt × List Func
  | st, tbl, [] => (st, tbl)
  | st, tbl, id :: rest =>
    if st.inlined.contains id then inlFuncs crit budget st tbl rest
    else
      match findFunc tbl id with
      | none => inlFuncs crit budget st tbl rest
      | some f =>
        let r := inlNodes tbl crit (inlAt tbl crit budget) st [] f.outputs f.nodes
        inlFuncs crit budget r.st (replaceFunc tbl { f with nodes := r.nodes, outputs := r.outs }) rest

/-- a value id above every id of the model -/
def freshF (m : FModel) : Nat := freshId (eraseModel m)

structure IRun where
  model : FModel
  st : ISt
  /-- `model.functions` after the loop over the functions, before the deletion -/
  tbl : List Func

/-- `InlinePass(criteria).call` (inliner.py:157-181): main graph, then the functions that are left, then
    the inlined functions are deleted.  `crit` = `criteria` as a predicate on function identifiers
    (`fun _ => true` for `criteria=None`). -/
def inlineRun (crit : OpId → Bool) (m : FModel) : IRun :=
  let budget := m.funcs.length
  let st0 : ISt := ⟨freshF m, [], 0, false, false⟩
  let r1 := inlG m.funcs crit (inlAt m.funcs crit budget) st0 [] m.graph
  let r2 := inlFuncs crit budget r1.1 m.funcs (m.funcs.map (·.id))
  ⟨{ graph := r1.2, funcs := r2.2.filter (fun f => !r2.1.inlined.contains f.id), domains := m.domains }, r2.1, r2.2⟩

/-- no node of the result (main graph and remaining functions) calls a function that was deleted -/
def noDangling (fs : List Func) (run : IRun) : Bool :=
  opsAllG (fun op => (findFunc fs op).isNone || !run.st.inlined.contains op) run.model.graph &&
  run.model.funcs.all (fun f => opsAllNodes (fun op => (findFunc fs op).isNone || !run.st.inlined.contains op) f.nodes)

/-! ## RemoveUnusedFunctionsPass (unused_removal.py:154-193) -/

/-- callees: the functions of the model named by nodes (deep) -/
def callees (tbl : List Func) (ops : List OpId) : List OpId := ops.filter (fun op => (findFunc tbl op).isSome)

/-- one round: the functions called by the functions in `used` join `used` -/
def reachStep (tbl : List Func) (used : List OpId) : List OpId :=
  used ++ (tbl.filter (fun f => used.contains f.id)).flatMap (fun f => callees tbl (opsNodes f.nodes))

def reachIter (tbl : List Func) : Nat → List OpId → List OpId
  | 0, used => used
  | k + 1, used => reachIter tbl k (reachStep tbl used)

/-- `self._used` after the traversal (`_call_node` / `_call_function`): the functions reachable from the
    main graph.  The Python is a depth-first search that marks a function before visiting its body; the
    model computes the same set by rounds. -/
def usedFuncs (m : FModel) : List OpId :=
  reachIter m.funcs m.funcs.length (callees m.funcs (opsG m.graph))

/-- `used` contains the callees of every function in it -/
def closedUsed (tbl : List Func) (used : List OpId) : Bool :=
  tbl.all (fun f => !used.contains f.id || (callees tbl (opsNodes f.nodes)).all (fun op => used.contains op))

/-- `RemoveUnusedFunctionsPass.call`; should the rounds not have reached a closed set (impossible with as
    many rounds as functions) the model is returned as it was -/
def rufModel (m : FModel) : FModel :=
  if closedUsed m.funcs (usedFuncs m) then
    { m with funcs := m.funcs.filter (fun f => (usedFuncs m).contains f.id) }
  else m

/-! ## RemoveUnusedOpsetsPass (unused_removal.py:196-230) -/

mutual
/-- `node.domain` of every node (deep) -/
def domsG : FGraph → List String
  | .mk _ _ _ nodes => domsNodes nodes
def domsNodes : List FNode → List String
  | [] => []
  | n :: ns => domsN n ++ domsNodes ns
def domsN : FNode → List String
  | .mk op _ _ _ bodies => op.domain :: domsBodies bodies
def domsBodies : List FGraph → List String
  | [] => []
  | b :: bs => domsG b ++ domsBodies bs
end

/-- `RemoveUnusedOpsetsPass(process_functions).call`: the main graph keeps "", the domains of the
    functions and the domains of its nodes; a function keeps "" and the domains of its nodes -/
def ruoModel (processFunctions : Bool) (m : FModel) : FModel :=
  let usedMain := "" :: m.funcs.map (·.id.domain) ++ domsG m.graph
  { graph := m.graph,
    funcs := if processFunctions then
        m.funcs.map (fun f => { f with domains := f.domains.filter (fun d => ("" :: domsNodes f.nodes).contains d) })
      else m.funcs,
    domains := m.domains.filter (fun d => usedMain.contains d) }

/-! ## validity (decidable; the driver evaluates it on every generated model) -/

/-- a call node and the function it calls fit: no graph attributes (inliner.py:207-214 raises), distinct
    attribute names (a dictionary), not more inputs than the function has (216-220 raises), not more
    outputs than the function has (with FEWER the real pass raises: flag `raised` of the run, `inlNodes`),
    and no attribute of the call is a REFERENCE while the function declares a
    default for it (the Cloner then keeps the reference and the default is lost when the outer parameter is
    unbound).  A function output that is a function input which the call does not supply makes the real pass
    raise; that is not a condition here (it is not stable under cloning a body into a call that supplies fewer
    inputs) but the flag `raised` of the run. -/
def callOK (f : Func) (attrs : List (String × FAttr)) (ins : List (Option VId)) (outs : List VId)
    (bodies : List FGraph) : Bool :=
  bodies.isEmpty && decide ((attrs.map Prod.fst).Nodup) &&
  decide (ins.length ≤ f.inputs.length) && decide (outs.length ≤ f.outputs.length) &&
  attrs.all (fun p => match p.2 with
    | .val _ => true
    | .ref _ => !(f.params.any (fun q => q.1 == p.1 && q.2.isSome)))

mutual
def callsOKG (tbl : List Func) : FGraph → Bool
  | .mk _ _ _ nodes => callsOKNodes tbl nodes
def callsOKNodes (tbl : List Func) : List FNode → Bool
  | [] => true
  | n :: ns => callsOKN tbl n && callsOKNodes tbl ns
def callsOKN (tbl : List Func) : FNode → Bool
  | .mk op attrs ins outs bodies =>
    (match findFunc tbl op with
     | some f => callOK f attrs ins outs bodies
     | none => true) && callsOKBodies tbl bodies
def callsOKBodies (tbl : List Func) : List FGraph → Bool
  | [] => true
  | b :: bs => callsOKG tbl b && callsOKBodies tbl bs
end

mutual
/-- in subgraphs (of function bodies): no value is both input and initializer -/
def subInitsOKG : FGraph → Bool
  | .mk inputs _ inits nodes => disj inputs (inits.map Prod.fst) && subInitsOKNodes nodes
def subInitsOKNodes : List FNode → Bool
  | [] => true
  | n :: ns => subInitsOKN n && subInitsOKNodes ns
def subInitsOKN : FNode → Bool
  | .mk _ _ _ _ bodies => subInitsOKBodies bodies
def subInitsOKBodies : List FGraph → Bool
  | [] => true
  | b :: bs => subInitsOKG b && subInitsOKBodies bs
end

/-- hypotheses of `C05_inline`: the graphs are valid in the sense of Model/Sem.lean (SSA, closed,
    topologically ordered, scoped); function identifiers are distinct; the call graph is not recursive
    (`requires`, inliner.py:147-155); calls fit their functions; function bodies contain no stochastic
    operator (in the semantics a stochastic node draws per node identity, and a clone is another node)
    and no subgraph whose input is also its initializer; no function is called `Identity` in the default
    domain (the Identity nodes that the pass inserts would be calls) -/
def validF (m : FModel) : Bool :=
  (findFunc m.funcs identityOp).isNone &&
  validModel (eraseModel m) &&
  decide ((m.funcs.map (·.id)).Nodup) &&
  m.funcs.all (fun f => lvl m.funcs m.funcs.length f.id) &&
  callsOKG m.funcs m.graph && m.funcs.all (fun f => callsOKNodes m.funcs f.nodes) &&
  m.funcs.all (fun f => opsAllNodes (fun op => !isStochasticOp op) f.nodes && subInitsOKNodes f.nodes)

/-! ## the model of InlinePass -/

/-- no call that the criterion accepts is left in the main graph -/
def noAccepted (fs : List Func) (crit : OpId → Bool) (run : IRun) : Bool :=
  opsAllG (fun op => !(crit op && (findFunc fs op).isSome)) run.model.graph

/-- the function bodies after the loop over the functions are still what a later clone needs: no stochastic
    operator, no input-that-is-initializer subgraph, closed subgraphs, well-formed calls (`fs` = the functions of
    the model before the pass: a function keeps its signature) -/
def synOK (fs : List Func) (tbl : List Func) : Bool :=
  tbl.all (fun f => opsAllNodes (fun op => !isStochasticOp op) f.nodes && subInitsOKNodes f.nodes &&
    closedNodes (eraseNodes f.nodes) && callsOKNodes fs f.nodes)

/-- the call trees of the functions `fs` are unrolled at depth `d` -/
def depthOK (d : Nat) (fs : List Func) : Bool := fs.all (fun f => lvl fs d f.id)

/-- the run of the model has a result that the theorems speak about -/
def runOK (crit : OpId → Bool) (m : FModel) : Bool :=
  !(inlineRun crit m).st.stuck && !(inlineRun crit m).st.raised && noDangling m.funcs (inlineRun crit m) &&
  noAccepted m.funcs crit (inlineRun crit m) && (!synOK m.funcs m.funcs || synOK m.funcs (inlineRun crit m).tbl) &&
  (!depthOK m.funcs.length m.funcs || depthOK m.funcs.length (inlineRun crit m).model.funcs)

/-- the model of the pass.  The unchanged model is the answer when the real pass raises (`raised`: a call does not
    supply a function input that the function returns; `replace_nodes_and_values` meets None) and in three
    situations that do not arise for a valid model: the unrolling budget did not suffice (`stuck`; the Python
    pass raises `PreconditionError` on a cyclic call graph), a call to a deleted function would remain
    (`noDangling`), a call that the criterion accepts is left in the main graph (`noAccepted`), a function body that
    the pass rewrote in place is not well-formed any more (`synOK`, required of the result when it holds of the
    model), or a remaining function has a deeper call tree than the model had functions (`depthOK`, likewise);
    these are evaluated on the result (every call the criterion
    accepts is inlined; inlining keeps bodies well-formed and does not deepen call trees).  The driver reports the
    flags; the check fails on all of them except `raised`, and on `raised` unless the real pass raised. -/
def inlineModel (crit : OpId → Bool) (m : FModel) : FModel :=
  if runOK crit m then (inlineRun crit m).model else m

/-! ## coherence with the semantics of Model/Sem.lean (`C05_coherent`) -/

/-- the interpretation that ignores trailing absent arguments: the function-call semantics trims the evaluated
    argument list (`trimV`), the semantics of Model/Sem.lean trims the syntactic one (`trimNone`) -/
def trimI (I : Interp Val) : Interp Val := ⟨fun op a b args t => I.sem op a b (trimV args) t, I.tv⟩

mutual
/-- no reference attribute anywhere (ONNX: reference attributes occur in function bodies only) -/
def noRefsG : FGraph → Bool
  | .mk _ _ _ nodes => noRefsNodes nodes
def noRefsNodes : List FNode → Bool
  | [] => true
  | n :: ns => noRefsN n && noRefsNodes ns
def noRefsN : FNode → Bool
  | .mk _ attrs _ _ bodies => attrs.all (fun p => match p.2 with | .val _ => true | .ref _ => false) && noRefsBodies bodies
def noRefsBodies : List FGraph → Bool
  | [] => true
  | b :: bs => noRefsG b && noRefsBodies bs
end

mutual
/-- every `Identity` node has exactly one input, up to omitted trailing ones (ONNX: Identity has one input) -/
def identOKG : FGraph → Bool
  | .mk _ _ _ nodes => identOKNodes nodes
def identOKNodes : List FNode → Bool
  | [] => true
  | n :: ns => identOKN n && identOKNodes ns
def identOKN : FNode → Bool
  | .mk op _ ins _ bodies => (!isIdentityOp op || (trimNone ins).length == 1) && identOKBodies bodies
def identOKBodies : List FGraph → Bool
  | [] => true
  | b :: bs => identOKG b && identOKBodies bs
end

/-- hypotheses of `C05_coherent`: the main graph calls no model-local function, has no reference attributes and
    its Identity nodes have one input -/
def pureMain (m : FModel) : Bool :=
  opsAllG (fun op => (findFunc m.funcs op).isNone) m.graph && noRefsG m.graph && identOKG m.graph

/-- every function body is free of calls to model-local functions (single-level calls): the extra hypothesis
    of `C05_inline_partial` -/
def flatFuncs (m : FModel) : Bool :=
  m.funcs.all (fun f => opsAllNodes (fun op => (findFunc m.funcs op).isNone) f.nodes)

end IrVerif.Inline

/-!
# Model/PassFlags4.lean - AddDefaultAttributesPass (property C14, wave 5)

Transcription of `passes/common/default_attributes.py` 21-99 for the flag / fixpoint / measure clauses of C14.
The ONNX operator schemas are a PARAMETER of the model (`SchemaTable`: what `onnx.defs.get_schema(op_type, version,
domain)` answers - `none` = `SchemaError` - as the list of attribute definitions in `op_schema.attributes.items()`
order); the theorems quantify over every table, the harness reads the table off the installed `onnx` package.
Attribute values are opaque tokens (the pass never looks inside a value).  The model is given as the sequence of
nodes the pass visits (`RecursiveGraphIterator(model.graph)`, then the same for every function): the pass only adds
attributes whose value is a deserialized schema default, so the set and order of the visited nodes is the same before
and after (the harness checks it on every case).  Core Lean only.
-/
namespace IrVerif.PassFlags4

/-- `OpSchema.Attribute`: name, `required`, the token of `default_value` when `_has_valid_default` holds -/
structure AttrDef where
  name : String
  required : Bool
  default : Option Nat
  deriving DecidableEq, Repr

/-- `onnx.defs.get_schema(op_type, version, domain)`; `none` = `SchemaError` -/
abbrev SchemaTable := String → String → Nat → Option (List AttrDef)

/-- a visited node: domain, op type, `node.version`, the attribute dictionary (insertion order, value tokens) -/
structure ANode where
  domain : String
  opType : String
  version : Option Nat
  attrs : List (String × Nat)
  deriving DecidableEq, Repr

def hasAttr (attrs : List (String × Nat)) (k : String) : Bool := attrs.any (fun p => p.1 = k)

/-- lines 59-70: the opset version of the node - its own, else the import of its domain, else none (the node is skipped) -/
def opsetVersion (imports : List (String × Nat)) (n : ANode) : Option Nat :=
  match n.version with
  | some v => some v
  | none => (imports.find? (fun p => p.1 = n.domain)).map (·.2)

/-- the definitions the node is measured against: none when the node is skipped (no version / no schema) -/
def defsOf (tbl : SchemaTable) (imports : List (String × Nat)) (n : ANode) : List AttrDef :=
  match opsetVersion imports n with
  | none => []
  | some v => (tbl n.domain n.opType v).getD []

/-- one iteration of the loop of lines 82-97: the attribute dictionary and `modified` -/
def addStep (p : List (String × Nat) × Bool) (d : AttrDef) : List (String × Nat) × Bool :=
  if d.required || hasAttr p.1 d.name then p
  else
    match d.default with
    | none => p
    | some v => (p.1 ++ [(d.name, v)], true)

/-- `_add_default_attributes_to_node`: the node afterwards and whether it was modified -/
def addNode (tbl : SchemaTable) (imports : List (String × Nat)) (n : ANode) : ANode × Bool :=
  let r := (defsOf tbl imports n).foldl addStep (n.attrs, false)
  ({ n with attrs := r.1 }, r.2)

/-- `AddDefaultAttributesPass.call` over the visit sequence: the nodes afterwards and `modified` -/
def addDefaults (tbl : SchemaTable) (imports : List (String × Nat)) (ns : List ANode) : List ANode × Bool :=
  (ns.map (fun n => (addNode tbl imports n).1), ns.any (fun n => (addNode tbl imports n).2))

/-- an optional attribute with a valid default that the dictionary does not have -/
def absentB (attrs : List (String × Nat)) (d : AttrDef) : Bool :=
  !d.required && !hasAttr attrs d.name && d.default.isSome

/-- the measure: the number of absent defaults over all visited nodes -/
def absentNode (tbl : SchemaTable) (imports : List (String × Nat)) (n : ANode) : Nat :=
  ((defsOf tbl imports n).filter (absentB n.attrs)).length

def absentCount (tbl : SchemaTable) (imports : List (String × Nat)) (ns : List ANode) : Nat :=
  (ns.map (absentNode tbl imports)).sum

end IrVerif.PassFlags4

/-
Decorations of a model: the fields of the ONNX messages that `IrVerif.Model.Scope` / `ScopeFunc` abstract
away and whose PLACEMENT does not depend on name resolution — they stay on the carrier (model, function,
graph, node) they were read from.  Their content is opaque tokens; what is modelled is which carrier they are
attached to, which entry of a repeated field wins, what is reordered, what is dropped, and when
serialization raises.

Python anchors (onnx/ir-py, `src/onnx_ir/serde.py`):
* `deserialize_metadata_props` 1198-1204 (`{entry.key: entry.value}`: first position, last value;
  `None` for an empty field), `_serialize_string_string_maps` 1827-1841 (`sorted(from_)`), guarded by
  `if from_.metadata_props:` at every carrier (1587, 1950, 2004, 2086)
* `deserialize_opset_import` 569-580 (`{opset.domain: opset.version}`), `_serialize_opset_imports_into`
  1812-1824 (dict order, no sorting), `graph.opset_imports.update(...)` 622
* `_get_field` 560-563 (absent field = `None`) and the `if from_.x:` guards of `serialize_model_into`
  1575-1584, `serialize_graph_into` 1898-1901, `serialize_node_into` 2084, `serialize_function_into` 1997
  (a falsy value is not written)
* `deserialize_model` 628-645 / `_serialize_device_configurations_into` 1689-1718 (model configurations:
  positional, written only when `ir_version >= 11`)
* `deserialize_node_device_configuration` 1514-1546, `_deserialize_sharding_spec` 1500-1511,
  `_resolve_sharded_value` 1452-1471 (empty `configuration_id` = no configuration, empty `tensor_name` = no
  value), `serialize_node_device_configuration` 1667-1686 and `_serialize_sharding_spec` 1642-1664 (raise
  without a configuration / value / name), `_serialize_node_multi_device_into` 2110-2146 (nothing is
  written and nothing raises when `model_ir_version < 11`)
* `deserialize_function` 994-1005 (attributes = `attribute_proto` entries, then one valueless attribute per
  `attribute` name; `_graph_containers.Attributes` 448-452: `{attr.name: attr}`), `serialize_function_into`
  2014-2019 (an attribute with a value goes to `attribute_proto`, one without to `attribute`)
* `_core.Model` functions dict `{func.identifier(): func}` (first position, last value)

Not in this file (they depend on name resolution): value-level `metadata_props` merge, quantization
annotations, the value a sharding spec refers to (only its name is carried here; the name is what
serialization writes), the IR < 10 function value-info format.
Core Lean only.
-/
import IrVerif.Model.ScopeFunc
namespace IrVerif.Scope

/-! ## string-string maps -/

/-- a repeated `StringStringEntryProto` field, or the `dict[str, str]` built from it -/
abbrev SS := List (String × String)

/-- `d[k] = v` on an insertion-ordered dict: first position, last value -/
def ssSet : SS → String → String → SS
  | [], k, v => [(k, v)]
  | (k', v') :: r, k, v => if k' = k then (k', v) :: r else (k', v') :: ssSet r k v

/-- `{entry.key: entry.value for entry in proto}` -/
def ssOfEntries (es : SS) : SS := es.foldl (fun d e => ssSet d e.1 e.2) []

def ssLe (a b : String × String) : Bool := decide (a.1 ≤ b.1)

/-- `for key in sorted(from_): add(key, from_[key])`; an empty (or `None`) dict writes nothing -/
def ssSorted (d : SS) : SS := d.mergeSort ssLe

/-- `_get_field` on the way in is the identity on `Option`; on the way out a falsy value is not written -/
def optOut : Option String → Option String
  | some s => if s = "" then none else some s
  | none => none

/-! ## device configurations of a node -/

/-- `NodeDeviceConfigurationProto`: configuration_id, pipeline_stage (token, `none` = absent),
    sharding specs as (tensor_name, token of the rest) -/
structure DevP where
  cfg : String
  stage : Option String
  specs : List (String × String)
deriving DecidableEq, Repr, Inhabited

/-- `NodeDeviceConfiguration`: the configuration (its name; `none` = no configuration), pipeline stage,
    sharding specs as (name of the value, `none` = no value; token of the rest) -/
structure DevS where
  cfg : Option String
  stage : Option String
  specs : List (Option String × String)
deriving DecidableEq, Repr, Inhabited

def nonEmpty (s : String) : Option String := if s = "" then none else some s

def deserDev (d : DevP) : DevS := ⟨nonEmpty d.cfg, d.stage, d.specs.map fun s => (nonEmpty s.1, s.2)⟩

inductive DErr where
  | noConfiguration
  | noValue
deriving DecidableEq, Repr, Inhabited

/-- `_serialize_sharding_spec`: raises without a value or when the value has no name -/
def serSpecs : List (Option String × String) → Except DErr (List (String × String))
  | [] => .ok []
  | (none, _) :: _ => .error .noValue
  | (some n, t) :: r =>
    if n = "" then .error .noValue
    else match serSpecs r with
      | .error e => .error e
      | .ok r' => .ok ((n, t) :: r')

/-- `serialize_node_device_configuration`: the configuration check comes first -/
def serDev (d : DevS) : Except DErr DevP :=
  match d.cfg with
  | none => .error .noConfiguration
  | some c =>
    if c = "" then .error .noConfiguration
    else match serSpecs d.specs with
      | .error e => .error e
      | .ok sp => .ok ⟨c, d.stage, sp⟩

def serDevs : List DevS → Except DErr (List DevP)
  | [] => .ok []
  | d :: r =>
    match serDev d with
    | .error e => .error e
    | .ok p => match serDevs r with
      | .error e => .error e
      | .ok ps => .ok (p :: ps)

/-- `_serialize_node_multi_device_into`: below IR version 11 nothing is written and nothing raises -/
def serDevsGated (ver : Int) (ds : List DevS) : Except DErr (List DevP) :=
  if ver < 11 then .ok [] else serDevs ds

/-! ## the decoration trees (same shape as `GraphP` / `NodeP` and `GraphT` / `NodeT`) -/

mutual
/-- decorations of a `NodeProto`: identity token (op_type, domain, name, overload: read directly, written
    when truthy — one token), doc_string, metadata_props, device_configurations, and the decorations of the
    graphs of its GRAPH / GRAPHS attributes (same order as `NodeP.subs`) -/
inductive NodeDP where
  | mk (tok : String) (doc : Option String) (mprops : SS) (devs : List DevP) (subs : List GraphDP)
/-- decorations of a `GraphProto`: name, doc_string, metadata_props, nodes -/
inductive GraphDP where
  | mk (name : Option String) (doc : Option String) (mprops : SS) (nodes : List NodeDP)
end

mutual
/-- decorations of a `_core.Node` -/
inductive NodeDS where
  | mk (tok : String) (doc : Option String) (mprops : SS) (devs : List DevS) (subs : List GraphDS)
/-- decorations of a `_core.Graph` -/
inductive GraphDS where
  | mk (name : Option String) (doc : Option String) (mprops : SS) (nodes : List NodeDS)
end

instance : Inhabited GraphDP := ⟨.mk none none [] []⟩
instance : Inhabited NodeDP := ⟨.mk "" none [] [] []⟩
instance : Inhabited GraphDS := ⟨.mk none none [] []⟩
instance : Inhabited NodeDS := ⟨.mk "" none [] [] []⟩

mutual
def deserGraphD : GraphDP → GraphDS
  | .mk name doc mprops nodes => .mk name doc (ssOfEntries mprops) (deserNodesD nodes)
def deserNodesD : List NodeDP → List NodeDS
  | [] => []
  | n :: ns => deserNodeD n :: deserNodesD ns
def deserNodeD : NodeDP → NodeDS
  | .mk tok doc mprops devs subs => .mk tok doc (ssOfEntries mprops) (devs.map deserDev) (deserGraphsD subs)
def deserGraphsD : List GraphDP → List GraphDS
  | [] => []
  | g :: gs => deserGraphD g :: deserGraphsD gs
end

mutual
def serGraphD (ver : Int) : GraphDS → Except DErr GraphDP
  | .mk name doc mprops nodes =>
    match serNodesD ver nodes with
    | .error e => .error e
    | .ok ns => .ok (.mk (optOut name) (optOut doc) (ssSorted mprops) ns)
def serNodesD (ver : Int) : List NodeDS → Except DErr (List NodeDP)
  | [] => .ok []
  | n :: ns =>
    match serNodeD ver n with
    | .error e => .error e
    | .ok p => match serNodesD ver ns with
      | .error e => .error e
      | .ok ps => .ok (p :: ps)
/-- `serialize_node_into`: the attributes (subgraphs) are written before the device configurations -/
def serNodeD (ver : Int) : NodeDS → Except DErr NodeDP
  | .mk tok doc mprops devs subs =>
    match serGraphsD ver subs with
    | .error e => .error e
    | .ok gs => match serDevsGated ver devs with
      | .error e => .error e
      | .ok ds => .ok (.mk tok (optOut doc) (ssSorted mprops) ds gs)
def serGraphsD (ver : Int) : List GraphDS → Except DErr (List GraphDP)
  | [] => .ok []
  | g :: gs =>
    match serGraphD ver g with
    | .error e => .error e
    | .ok p => match serGraphsD ver gs with
      | .error e => .error e
      | .ok ps => .ok (p :: ps)
end

/-! ## functions -/

/-- decorations of a `FunctionProto`: doc_string, opset_import, metadata_props, `attribute_proto` as
    (name, has a value, token), `attribute` (names), nodes -/
structure FuncDP where
  id : FId
  doc : Option String
  opsets : SS
  mprops : SS
  attrProtos : List (String × Bool × String)
  attrNames : List String
  nodes : List NodeDP

/-- decorations of a `_core.Function`: the attributes are one dict name -> (has a value, token) -/
structure FuncDS where
  doc : Option String
  opsets : SS
  mprops : SS
  attrs : List (String × Bool × String)
  nodes : List NodeDS

/-- `{attr.name: attr for attr in attrs}` -/
def attrSet : List (String × Bool × String) → String × Bool × String → List (String × Bool × String)
  | [], a => [a]
  | b :: r, a => if b.1 = a.1 then (b.1, a.2) :: r else b :: attrSet r a

def attrDict (as : List (String × Bool × String)) : List (String × Bool × String) := as.foldl attrSet []

/-- 994-998: the `attribute_proto` entries, then a valueless attribute per `attribute` name -/
def deserFuncD (f : FuncDP) : FuncDS :=
  ⟨f.doc, ssOfEntries f.opsets, ssOfEntries f.mprops,
    attrDict (f.attrProtos ++ f.attrNames.map fun n => (n, false, "")), deserNodesD f.nodes⟩

/-- 1991-2035 -/
def serFuncD (ver : Int) (id : FId) (f : FuncDS) : Except DErr FuncDP :=
  match serNodesD ver f.nodes with
  | .error e => .error e
  | .ok ns =>
    .ok ⟨id, optOut f.doc, f.opsets, ssSorted f.mprops, f.attrs.filter (·.2.1),
      (f.attrs.filter fun a => !a.2.1).map (·.1), ns⟩

/-- `{func.identifier(): func}`: first position, last value (the same discipline as `fdictInsert`) -/
def fdInsert (d : List (FId × FuncDS)) (k : FId) (f : FuncDS) : List (FId × FuncDS) :=
  match d with
  | [] => [(k, f)]
  | (k', f') :: r => if k' = k then (k', f) :: r else (k', f') :: fdInsert r k f

def deserFuncsD (d : List (FId × FuncDS)) : List FuncDP → List (FId × FuncDS)
  | [] => d
  | f :: fs => deserFuncsD (fdInsert d f.id (deserFuncD f)) fs

def serFuncsD (ver : Int) : List (FId × FuncDS) → Except DErr (List FuncDP)
  | [] => .ok []
  | f :: fs =>
    match serFuncD ver f.1 f.2 with
    | .error e => .error e
    | .ok p => match serFuncsD ver fs with
      | .error e => .error e
      | .ok ps => .ok (p :: ps)

/-! ## the model -/

/-- decorations of a `ModelProto`: ir_version, the `_get_field` fields (producer_name, producer_version,
    domain, model_version, doc_string; tokens), opset_import, metadata_props, `configuration` (tokens), the
    main graph, the functions -/
structure ModelDP where
  ver : Int
  opt : List (Option String)
  opsets : SS
  mprops : SS
  cfgs : List String
  graph : GraphDP
  funcs : List FuncDP

structure ModelDS where
  ver : Int
  opt : List (Option String)
  opsets : SS
  mprops : SS
  cfgs : List String
  graph : GraphDS
  funcs : List (FId × FuncDS)

/-- `deserialize_model` on the decorations (it cannot fail: every error path of `deserialize_model` is in the
    core model or in a leaf decoder) -/
def deserModelD (m : ModelDP) : ModelDS :=
  ⟨m.ver, m.opt, ssOfEntries m.opsets, ssOfEntries m.mprops, m.cfgs, deserGraphD m.graph, deserFuncsD [] m.funcs⟩

/-- `serialize_model_into` on the decorations -/
def serModelD (m : ModelDS) : Except DErr ModelDP :=
  match serGraphD m.ver m.graph with
  | .error e => .error e
  | .ok g =>
    match serFuncsD m.ver m.funcs with
    | .error e => .error e
    | .ok fs => .ok ⟨m.ver, m.opt.map optOut, m.opsets, ssSorted m.mprops, if m.ver < 11 then [] else m.cfgs, g, fs⟩

/-! ## representation invariant of the IR side: the dicts have distinct keys

(always true of the real objects — they are Python dicts; decidable, evaluated by the driver on every world
built from the real IR) -/

def keysNodupB : List String → Bool
  | [] => true
  | a :: r => !r.contains a && keysNodupB r

def ssWFB (d : SS) : Bool := keysNodupB (d.map (·.1))

mutual
def wfGraphDB : GraphDS → Bool
  | .mk _ _ m ns => ssWFB m && wfNodesDB ns
def wfNodesDB : List NodeDS → Bool
  | [] => true
  | n :: ns => wfNodeDB n && wfNodesDB ns
def wfNodeDB : NodeDS → Bool
  | .mk _ _ m _ subs => ssWFB m && wfGraphsDB subs
def wfGraphsDB : List GraphDS → Bool
  | [] => true
  | g :: gs => wfGraphDB g && wfGraphsDB gs
end

def wfFuncDB (f : FuncDS) : Bool :=
  ssWFB f.opsets && ssWFB f.mprops && keysNodupB (f.attrs.map (·.1)) && wfNodesDB f.nodes

def fidsNodupB : List FId → Bool
  | [] => true
  | a :: r => !r.contains a && fidsNodupB r

def wfModelDB (m : ModelDS) : Bool :=
  ssWFB m.opsets && ssWFB m.mprops && wfGraphDB m.graph && fidsNodupB (m.funcs.map (·.1)) &&
    m.funcs.all fun f => wfFuncDB f.2

/-! ## what a round trip IR -> proto -> IR keeps of the decorations -/

mutual
def canonGraphD (ver : Int) : GraphDS → GraphDS
  | .mk name doc m ns => .mk (optOut name) (optOut doc) (ssSorted m) (canonNodesD ver ns)
def canonNodesD (ver : Int) : List NodeDS → List NodeDS
  | [] => []
  | n :: ns => canonNodeD ver n :: canonNodesD ver ns
/-- metadata sorted by key, a falsy doc_string gone, device configurations gone below IR version 11 -/
def canonNodeD (ver : Int) : NodeDS → NodeDS
  | .mk tok doc m devs subs =>
    .mk tok (optOut doc) (ssSorted m) (if ver < 11 then [] else devs) (canonGraphsD ver subs)
def canonGraphsD (ver : Int) : List GraphDS → List GraphDS
  | [] => []
  | g :: gs => canonGraphD ver g :: canonGraphsD ver gs
end

/-- attributes with a value first, then the valueless ones (which keep their name only) -/
def canonFuncD (ver : Int) (f : FuncDS) : FuncDS :=
  ⟨optOut f.doc, f.opsets, ssSorted f.mprops,
    f.attrs.filter (·.2.1) ++ (f.attrs.filter fun a => !a.2.1).map (fun a => (a.1, false, "")),
    canonNodesD ver f.nodes⟩

def canonModelD (m : ModelDS) : ModelDS :=
  ⟨m.ver, m.opt.map optOut, m.opsets, ssSorted m.mprops, if m.ver < 11 then [] else m.cfgs,
    canonGraphD m.ver m.graph, m.funcs.map fun f => (f.1, canonFuncD m.ver f.2)⟩

/-! ## decorated models: core and decorations side by side -/

structure XModelP where
  core : ModelP
  deco : ModelDP

structure XWorld where
  core : MWorld
  deco : ModelDS

inductive XErr where
  | core (e : Err)
  | ser (e : SErr)
  | deco (e : DErr)

/-- `deserialize_model` -/
def deserializeX (p : XModelP) : Except XErr XWorld :=
  match deserializeM p.core with
  | .error e => .error (.core e)
  | .ok m => .ok ⟨m, deserModelD p.deco⟩

/-- `serialize_model` -/
def serializeX (w : XWorld) : Except XErr (XWorld × XModelP) :=
  match serializeM w.core with
  | .error e => .error (.ser e)
  | .ok (m1, q) =>
    match serModelD w.deco with
    | .error e => .error (.deco e)
    | .ok d => .ok (⟨m1, w.deco⟩, ⟨q, d⟩)

end IrVerif.Scope

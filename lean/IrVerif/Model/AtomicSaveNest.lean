import IrVerif.Model.AtomicSaveConc
/-!
# C08, fourth deepening round: concurrent shard drivers with INNER parallel writers (two levels)

`_write_external_tensors` (external_data.py 874-911) gives every shard driver
`workers_per_shard = max(1, (max_workers - shard_workers) // shard_workers)` inner workers (878); a shard
whose writer gets `max_workers > 1` and more than one tensor uses `_write_parallel` (547-548, 606-666), i.e.
inner writers are parallel iff `max_workers >= 3 * min(max_workers, number of shards)`.

Two levels: shard drivers (outer pool) x inner workers (one pool per shard).  A pick of the scheduler names
the shard `k` and the thread inside it: the driver thread itself (`w = none`) or the inner worker that works
through handle `w` (`thread_local.data_file`, 636-646; a worker is identified by the number of its handle, so
two workers never share a handle by construction).  Every inner effect addresses that shard's own temporary
file (the private world `loc` of `Model/AtomicSaveConc.lean`).

Driver thread of one shard (`_write_external_data` 467-501 around `_write_parallel` 617-666):
`mkdtemp`; the effects it performs itself before the pool (`pre`: the prelude `open, truncate total, close`
623-624 — or the whole serial writer when the shard is written serially, then `tasks = []`); inside the pool
it waits (`as_completed` 657-658): it goes on only when no inner worker is in the middle of a task AND
(every task was taken OR some task raised — then `shutdown(cancel_futures=True)` 660 drops the queue);
`finally:` 664-666 closes the handles in the order they were opened (a failing `close` leaves the loop);
then `os.replace` 496 iff nothing raised; `os.remove`, `os.rmdir` 498-501.

Inner worker with handle `w`: takes a queued task (also after another task raised, as long as the driver has
not reacted), performs `open(..., "r+b")` if it has no handle yet
(640-645), the call-back (580-583), `seek(offset)` 391, one `write` per chunk 395; a failing effect ends the
task (the future holds the exception), the worker itself lives on.  Locks (`tensor_write_locks`,
`callback_lock`, `_ByteBudget`) only remove interleavings; the model allows all of them.

Core Lean only (linked into the driver).
-/
namespace IrVerif.AtomicSave

/-- One task of the inner pool, `_write_one(index)` 648-652: tensor number, offset, `write` calls. -/
structure Task where
  idx : Nat
  off : Nat
  chunks : List Bytes
  deriving Repr, DecidableEq

def Task.bytes (t : Task) : Bytes := t.chunks.flatten

/-- byte position `x` of the file belongs to the range of the task -/
def Task.covers (t : Task) (x : Nat) : Bool := decide (t.off ≤ x) && decide (x < t.off + t.bytes.length)

/-- One shard: destination, call-back given?, the effects the driver thread performs itself before the
pool, the tasks of the inner pool (`[]` for a serially written shard). -/
structure NJob where
  dest : String
  cb : Bool
  pre : List Eff
  tasks : List Task
  deriving Repr

/-- Program counter of the driver thread of one shard. -/
inductive NPC where
  /-- about to call `tempfile.mkdtemp` 467 -/
  | init
  /-- its own writer effects still to perform (623-624 or 592-604) -/
  | pre (rest : List Eff)
  /-- inside the inner pool, waiting in `as_completed` 657 -/
  | pool
  /-- `finally:` 664-666, handles still to close; `exc`: an exception is in flight -/
  | closing (rest : List Nat) (exc : Bool)
  /-- `os.replace` is next 496 -/
  | rep
  | fin1 (exc : Bool)
  | fin2 (exc : Bool)
  | done (raised : Bool)
  deriving Repr, DecidableEq

/-- How far an inner worker got with its task. -/
inductive Stage where
  /-- `open(self._file_path, "r+b")` is next 640 -/
  | opn
  /-- the call-back is next 580-583 -/
  | cbk
  /-- `file.seek(offset)` is next 391 -/
  | sek
  /-- the `write` calls still to perform 395 -/
  | wr (rc : List Bytes)
  deriving Repr, DecidableEq

/-- An inner worker (named by its handle) in the middle of a task. -/
structure Wk where
  w : Nat
  task : Task
  st : Stage
  deriving Repr, DecidableEq

structure NProc where
  job : NJob
  pc : NPC
  /-- private world: temporary directory, temporary file, handles -/
  loc : St
  /-- tasks nobody has taken yet (`executor.submit` order, 656) -/
  queue : List Task
  /-- inner workers that are in the middle of a task -/
  act : List Wk
  /-- `files` 633: the handles that were opened, in that order -/
  files : List Nat
  /-- some task raised (its future holds an exception) -/
  failed : Bool
  /-- ghost: the tasks that ran to their end -/
  doneT : List Task

structure NCSt where
  sh : St
  procs : Nat → NProc

/-- A pick of the scheduler: shard `k`; `w = none`: its driver thread, `w = some h`: the inner worker with
handle `h`; `fault = some p`: the effect fails (a write after `p` bytes). -/
structure NPick where
  k : Nat
  w : Option Nat
  /-- the task (tensor number) an idle inner worker takes before it performs the effect -/
  take : Nat
  fault : Option Nat
  deriving Repr

/-- The moves of the driver thread that are no effects: its own writer effects are through -> the pool;
the pool is through (nobody in the middle of a task, and every task taken or one raised) -> cancel what is
queued, close the handles; no handle left -> `os.replace`, or the handlers if an exception is in flight. -/
def settle1 (p : NProc) : NProc :=
  match p.pc with
  | .pre [] => { p with pc := .pool }
  | _ => p

def settle2 (p : NProc) : NProc :=
  match p.pc with
  | .pool =>
    if p.act.isEmpty && (p.failed || p.queue.isEmpty) then { p with pc := .closing p.files p.failed, queue := [] }
    else p
  | _ => p

def settle3 (p : NProc) : NProc :=
  match p.pc with
  | .closing [] exc => { p with pc := if exc then .fin1 true else .rep }
  | _ => p

def settle (p : NProc) : NProc := settle3 (settle2 (settle1 p))

/-- One step of the driver thread of a shard (`none`: it cannot move — it waits for its inner workers, or it
has finished). -/
def stepMain (nm : Nat) (sh : St) (p0 : NProc) (o : Option Nat) : Option (Eff × St × NProc) :=
  let p := settle p0
  let env : Env := ⟨p.job.dest, nm⟩
  match p.pc, o with
  | .init, none => some (.mkdtemp, sh, { p with pc := .pre p.job.pre, loc := apply env p.loc .mkdtemp })
  | .init, some _ => some (.mkdtemp, sh, { p with pc := .done true })
  | .pre (e :: r), none => some (e, sh, { p with pc := .pre r, loc := apply env p.loc e })
  | .pre (e :: _), some q => some (e, sh, { p with pc := .fin1 true, loc := applyPartial env p.loc e q })
  | .closing (w :: r) exc, none =>
    some (.closeW w, sh, { p with pc := .closing r exc, loc := apply env p.loc (.closeW w) })
  | .closing (w :: _) _, some _ => some (.closeW w, sh, { p with pc := .fin1 true })
  | .rep, none =>
    let r := publish p.job.dest sh p.loc
    some (.replace, r.1, { p with pc := .fin1 false, loc := r.2 })
  | .rep, some _ => some (.replace, sh, { p with pc := .fin1 true })
  | .fin1 b, none => some (.removeTmp, sh, { p with pc := .fin2 b, loc := apply env p.loc .removeTmp })
  | .fin1 _, some _ => some (.removeTmp, sh, { p with pc := .done true })
  | .fin2 b, none => some (.rmdirTmp, sh, { p with pc := .done b, loc := apply env p.loc .rmdirTmp })
  | .fin2 _, some _ => some (.rmdirTmp, sh, { p with pc := .done true })
  | _, _ => none

/-- The effect an inner worker performs next. -/
def wkEff (x : Wk) : Eff :=
  match x.st with
  | .opn => .openW x.w
  | .cbk => .callback x.task.idx
  | .sek => .seekW x.w x.task.off
  | .wr (c :: _) => .writeW x.w c
  | .wr [] => .callback x.task.idx

/-- The stage after that effect succeeded (`none`: the task ran to its end). -/
def wkNext (cb : Bool) (x : Wk) : Option Stage :=
  match x.st with
  | .opn => some (if cb then .cbk else .sek)
  | .cbk => some .sek
  | .sek => if x.task.chunks.isEmpty then none else some (.wr x.task.chunks)
  | .wr (_ :: rc) => if rc.isEmpty then none else some (.wr rc)
  | .wr [] => none

/-- An idle worker takes a queued task (no effect): it opens its handle first if it has none (636-646). The real
pool hands the tasks out in `submit` order at moments that are no effects (a worker may hold a task for any time
before its first effect); the model lets an idle worker take ANY queued task (number `i`) at the moment of its first
effect: every real schedule is one of these. -/
def startIfIdle (p : NProc) (w i : Nat) : NProc :=
  if p.act.any (fun a => a.w == w) then p else
  match p.queue.find? (fun t => t.idx == i) with
  | none => p
  | some t =>
    { p with queue := p.queue.erase t,
             act := ⟨w, t, if p.files.contains w then (if p.job.cb then .cbk else .sek) else .opn⟩ :: p.act }

/-- Worker `x` (one of `p.act`) performs its next effect. -/
def doWk (nm : Nat) (p : NProc) (x : Wk) (o : Option Nat) : NProc :=
  let env : Env := ⟨p.job.dest, nm⟩
  let others := p.act.filter (fun a => a.w != x.w)
  match o with
  | none =>
    let files := if x.st = .opn then p.files ++ [x.w] else p.files
    match wkNext p.job.cb x with
    | some st => { p with loc := apply env p.loc (wkEff x), files := files, act := { x with st := st } :: others }
    | none => { p with loc := apply env p.loc (wkEff x), files := files, act := others, doneT := x.task :: p.doneT }
  | some q => { p with loc := applyPartial env p.loc (wkEff x) q, act := others, failed := true }

/-- One step of the inner worker with handle `w` of a shard (`none`: it has nothing to do). Inner workers exist
only while the driver thread is inside the pool. -/
def stepWk (nm : Nat) (p : NProc) (w i : Nat) (o : Option Nat) : Option (Eff × NProc) :=
  if (settle1 p).pc = .pool then
    let p1 := startIfIdle (settle1 p) w i
    match p1.act.find? (fun a => a.w == w) with
    | some x => some (wkEff x, doWk nm p1 x o)
    | none => none
  else none

/-- One executed (or failed) effect: shard, thread, effect, and the state right after it. -/
structure NStep where
  k : Nat
  w : Option Nat
  eff : Eff
  failed : Bool
  st : NCSt

def nstep (nm : Nat) (c : NCSt) (pk : NPick) : Option (Eff × NCSt) :=
  match pk.w with
  | none =>
    match stepMain nm c.sh (c.procs pk.k) pk.fault with
    | some (e, sh, p) => some (e, ⟨sh, upd c.procs pk.k p⟩)
    | none => none
  | some w =>
    match stepWk nm (c.procs pk.k) w pk.take pk.fault with
    | some (e, p) => some (e, ⟨c.sh, upd c.procs pk.k p⟩)
    | none => none

/-- Run a two-level schedule; a pick of a thread that cannot move is skipped. -/
def nrun (nm : Nat) : List NPick → NCSt → List NStep × NCSt
  | [], c => ([], c)
  | pk :: r, c =>
    match nstep nm c pk with
    | none => nrun nm r c
    | some (e, c') =>
      let rest := nrun nm r c'
      (⟨pk.k, pk.w, e, pk.fault.isSome, c'⟩ :: rest.1, rest.2)

def initNProcs (jobs : List NJob) : Nat → NProc := fun k =>
  match jobs[k]? with
  | some j => ⟨j, .init, emptySt, j.tasks, [], [], false, []⟩
  | none => ⟨⟨"", false, [], []⟩, .done false, emptySt, [], [], [], false, []⟩

structure NRes where
  steps : List NStep
  final : NCSt
  refused : Bool

/-- 852 + 874-911 with inner writers: the pre-flight, then the two-level run under schedule `sched`. -/
def saveShardedNest (newMode : Nat) (jobs : List NJob) (sched : List NPick) (s0 : St) : NRes :=
  if jobs.any (fun j => existsP s0.fs (.user j.dest)) then ⟨[], ⟨s0, initNProcs jobs⟩, true⟩
  else
    let r := nrun newMode sched ⟨s0, initNProcs jobs⟩
    ⟨r.1, r.2, false⟩

/-! ### The complete bytes of a shard, independent of the schedule -/

/-- The private world when the driver's own writer effects are through. -/
def preEnd (nm : Nat) (j : NJob) : St :=
  j.pre.foldl (apply ⟨j.dest, nm⟩) (apply ⟨j.dest, nm⟩ emptySt .mkdtemp)

/-- The temporary file's bytes at that moment (`[]` if there is no file). -/
def preBytes (nm : Nat) (j : NJob) : Bytes :=
  match (preEnd nm j).fs.file .tmpFile with
  | some t => (preEnd nm j).fs.data t
  | none => []

/-- The byte the complete file holds at position `x`: the byte of the (first) task whose range contains `x`,
else what the driver's own effects left there (zero after the `truncate` of the prelude). -/
def tgtByte (nm : Nat) (j : NJob) (x : Nat) : Nat :=
  match j.tasks.find? (fun t => t.covers x) with
  | some t => t.bytes.getD (x - t.off) 0
  | none => (preBytes nm j).getD x 0

/-- **The complete bytes of a shard**: as long as the driver's own effects made the file, every task's bytes
at its offset. -/
def nBytes (nm : Nat) (j : NJob) : Bytes :=
  (List.range (preBytes nm j).length).map (tgtByte nm j)

/-- Well-formedness of a shard job (decidable; evaluated by the driver on every compared run): the driver's
own effects create the temporary file, every task's range lies inside the file as it is then (the prelude
preallocates `total_size`, 617-624), and the tasks agree where their ranges overlap (they never do in a layout
computed by `_compute_external_data_info`: ranges are disjoint). -/
def jobOk (nm : Nat) (j : NJob) : Bool :=
  ((preEnd nm j).fs.file .tmpFile).isSome
    && j.tasks.all fun t =>
      decide (t.off + t.bytes.length ≤ (preBytes nm j).length)
        && (List.range t.bytes.length).all fun i => t.bytes.getD i 0 == tgtByte nm j (t.off + i)

/-- A shard that is written serially (592-604): everything is the driver thread's own. -/
def serNJob (cb : Bool) (j : String × List Tensor) : NJob := ⟨j.1, cb, serialBody cb j.2, []⟩

def tasksFrom : Nat → List Tensor → List Task
  | _, [] => []
  | i, t :: ts => ⟨i, t.off, t.chunks⟩ :: tasksFrom (i + 1) ts

/-- A shard with an inner parallel writer (606-666). -/
def parNJob (cb : Bool) (j : String × List Tensor) : NJob :=
  ⟨j.1, cb, [.openTmp, .truncate (totalSize j.2), .closeTmp], tasksFrom 0 j.2⟩

/-- 547: the parallel writer is used iff the shard has more than one tensor (and `max_workers > 1`). -/
def mkNJob (cb par : Bool) (j : String × List Tensor) : NJob :=
  if par && decide (1 < j.2.length) then parNJob cb j else serNJob cb j

def nAllDone (n : Nat) (c : NCSt) : Bool :=
  (List.range n).all fun k => match (c.procs k).pc with | .done _ => true | _ => false

def nAnyRaised (n : Nat) (c : NCSt) : Bool :=
  (List.range n).any fun k => (c.procs k).pc == .done true

end IrVerif.AtomicSave

/-
Node attributes: the positional layer of the C03 / C17 model that carries the `attribute` list of every
`NodeProto` (main graph, subgraphs, function bodies) and the `Attributes` dict of every `_core.Node`.
Trees of the same shape as `NodeP` / `GraphP` and `NodeT` / `GraphT` (`IrVerif.Model.Scope`); the graphs of
GRAPH / GRAPHS attributes are IN the attribute list, because the order of `NodeP.subs` is the attribute order
(`subsOfP` / `subsOfS` below state the alignment).

Python anchors (onnx/ir-py, `src/onnx_ir/serde.py`):
* `_deserialize_attribute` 1222-1300: `_enums.AttributeType(proto.type)` raises ValueError on a number that is
  not an attribute type; a truthy `ref_attr_name` gives `RefAttr(name, ref_attr_name, type, doc_string)` BEFORE
  the type dispatch (the payload of a reference attribute is never read, a GRAPH typed reference attribute
  holds no graph); INT / FLOAT / STRING / INTS / FLOATS / STRINGS / TENSOR / TENSORS / TYPE_PROTO / TYPE_PROTOS
  read the one payload field of their type (leaf decoders; STRINGS raises on bytes that are not UTF-8);
  GRAPH / GRAPHS call `_deserialize_graph`; SPARSE_TENSOR / SPARSE_TENSORS raise NotImplementedError;
  UNDEFINED gives `Attr(name, UNDEFINED, None)`.
* `_deserialize_node` 1422-1428: `{a.name: a for a in proto.attribute}.values()` — position of the FIRST
  occurrence of a name, attribute of the LAST; only the surviving attributes are deserialized.
* `_graph_containers.Attributes.__init__` 485-489: `{attr.name: attr for attr in attrs}`.
* `serialize_node_into` 2115-2124: attributes written in dict order; `is_ref()` (`ref_attr_name is not None`)
  chooses `serialize_reference_attribute_into` 2349-2356 (name, ref_attr_name unconditionally, doc_string when
  truthy, type) or `serialize_attribute_into` 2241-2252 (name, doc_string when truthy,
  `_fill_in_value_for_attribute` 2255-2346: the type is tested first — SPARSE_* raise NotImplementedError,
  UNDEFINED and anything else raise TypeError — then the value is written: a `None` value raises).
* `deserialize_model` 623-627: every function is deserialized (a function that is later shadowed in the
  functions dict still raises); `_core.Model` functions dict `{func.identifier(): func}`.

What is abstracted.  The payload of a non-graph attribute is one opaque token (the harness takes the canonical
bytes of the payload field that belongs to the type; stray payload fields of other types are not in the
abstraction); the leaf decoders are the identity on tokens and may raise (`leafOk`, computed by the harness
without the code under test).  The type is the number of `AttributeProto.AttributeType`.
Core Lean only.
-/
import IrVerif.Model.ScopeMeta
namespace IrVerif.Scope

/-- classes of `AttributeProto.AttributeType` numbers: UNDEFINED 0; FLOAT 1, INT 2, STRING 3, TENSOR 4,
    FLOATS 6, INTS 7, STRINGS 8, TENSORS 9, TYPE_PROTO 13, TYPE_PROTOS 14 (one payload field, a token);
    GRAPH 5; GRAPHS 10; SPARSE_TENSOR 11, SPARSE_TENSORS 12; anything above 14 is not an attribute type -/
inductive TyKind where
  | undefined | leaf | graph | graphs | sparse | unknown
deriving DecidableEq, Repr, Inhabited

def kindOf (ty : Nat) : TyKind :=
  if ty = 0 then .undefined
  else if ty = 5 then .graph
  else if ty = 10 then .graphs
  else if ty = 11 ∨ ty = 12 then .sparse
  else if ty ≤ 14 then .leaf
  else .unknown

inductive AErr where
  /-- `_enums.AttributeType(proto.type)`: ValueError -/
  | unknownType
  /-- SPARSE_TENSOR / SPARSE_TENSORS: NotImplementedError (both directions) -/
  | sparse
  /-- a leaf decoder raised (STRINGS with bytes that are not UTF-8, ...) -/
  | leaf
  /-- serialization of an attribute whose value is `None` -/
  | noValue
  /-- `_fill_in_value_for_attribute`: TypeError "Unsupported attribute type" (UNDEFINED) -/
  | unsupported
deriving DecidableEq, Repr, Inhabited

/-! ## the trees -/

mutual
/-- `AttributeProto`: name, doc_string (`none` = absent), ref_attr_name (`none` = absent), type number,
    token of the payload field of that type, whether the leaf decoder accepts it, field `g`, field `graphs` -/
inductive AttrP where
  | mk (name : String) (doc : Option String) (ref : Option String) (ty : Nat) (tok : String) (leafOk : Bool)
      (g : GraphAP) (gs : List GraphAP)
/-- the `attribute` field of a `NodeProto`, in order -/
inductive NodeAP where
  | mk (attrs : List AttrP)
/-- the `node` field of a `GraphProto` -/
inductive GraphAP where
  | mk (nodes : List NodeAP)
end

mutual
/-- `_core.Attr` -/
inductive AttrS where
  /-- not a reference, type other than a held graph: type number and value token (`none` = value `None`) -/
  | leaf (name : String) (doc : Option String) (ty : Nat) (val : Option String)
  | graph (name : String) (doc : Option String) (g : GraphAS)
  | graphs (name : String) (doc : Option String) (gs : List GraphAS)
  /-- `is_ref()`: `ref_attr_name is not None` -/
  | ref (name : String) (doc : Option String) (refName : String) (ty : Nat)
/-- the `Attributes` dict of a `_core.Node` in insertion order -/
inductive NodeAS where
  | mk (attrs : List AttrS)
inductive GraphAS where
  | mk (nodes : List NodeAS)
end

instance : Inhabited GraphAP := ⟨.mk []⟩
instance : Inhabited NodeAP := ⟨.mk []⟩
instance : Inhabited GraphAS := ⟨.mk []⟩
instance : Inhabited NodeAS := ⟨.mk []⟩

/-- the value of an absent `g` field -/
def emptyGAP : GraphAP := .mk []

def AttrP.name : AttrP → String | .mk n _ _ _ _ _ _ _ => n
def AttrS.name : AttrS → String
  | .leaf n _ _ _ => n
  | .graph n _ _ => n
  | .graphs n _ _ => n
  | .ref n _ _ _ => n
def NodeAP.attrs : NodeAP → List AttrP | .mk a => a
def NodeAS.attrs : NodeAS → List AttrS | .mk a => a
def GraphAP.nodes : GraphAP → List NodeAP | .mk n => n
def GraphAS.nodes : GraphAS → List NodeAS | .mk n => n

/-! ## `{k: v for ...}`: first position, last value -/

def kvSet {κ β : Type} [DecidableEq κ] : List (κ × β) → κ → β → List (κ × β)
  | [], k, v => [(k, v)]
  | (k', v') :: r, k, v => if k' = k then (k', v) :: r else (k', v') :: kvSet r k v

def kvDict {κ β : Type} [DecidableEq κ] (l : List (κ × β)) : List (κ × β) :=
  l.foldl (fun d e => kvSet d e.1 e.2) []

/-- the generator expression of 1422-1428 evaluates the surviving attributes in dict order; the first raise wins -/
def seqA {β : Type} : List (String × Except AErr β) → Except AErr (List β)
  | [] => .ok []
  | (_, .error e) :: _ => .error e
  | (_, .ok b) :: r =>
    match seqA r with
    | .error e => .error e
    | .ok bs => .ok (b :: bs)

/-! ## deserialization

`deserAttrsR` computes the outcome of `_deserialize_attribute` for EVERY attribute of the list; `deserNodeA`
keeps the outcomes of the surviving ones (`kvDict` on the names) and only these can raise.  Because the model's
deserialization is a pure function this is the same as deserializing only the survivors, which is what the
code does (a shadowed attribute is never deserialized: no raise, no graph). -/

mutual
def deserAttrA : AttrP → Except AErr AttrS
  | .mk name doc ref ty tok ok g gs =>
    match kindOf ty with
    | .unknown => .error .unknownType
    | k =>
      match optOut ref with
      | some r => .ok (.ref name doc r ty)
      | none =>
        match k with
        | .graph =>
          match deserGraphA g with
          | .error e => .error e
          | .ok g' => .ok (.graph name doc g')
        | .graphs =>
          match deserGraphsA gs with
          | .error e => .error e
          | .ok gs' => .ok (.graphs name doc gs')
        | .sparse => .error .sparse
        | .undefined => .ok (.leaf name doc ty none)
        | _ => if ok then .ok (.leaf name doc ty (some tok)) else .error .leaf
def deserAttrsR : List AttrP → List (String × Except AErr AttrS)
  | [] => []
  | a :: as => (a.name, deserAttrA a) :: deserAttrsR as
def deserNodeA : NodeAP → Except AErr NodeAS
  | .mk attrs =>
    match seqA (kvDict (deserAttrsR attrs)) with
    | .error e => .error e
    | .ok as => .ok (.mk as)
def deserNodesA : List NodeAP → Except AErr (List NodeAS)
  | [] => .ok []
  | n :: ns =>
    match deserNodeA n with
    | .error e => .error e
    | .ok n' => match deserNodesA ns with
      | .error e => .error e
      | .ok ns' => .ok (n' :: ns')
def deserGraphA : GraphAP → Except AErr GraphAS
  | .mk nodes =>
    match deserNodesA nodes with
    | .error e => .error e
    | .ok ns => .ok (.mk ns)
def deserGraphsA : List GraphAP → Except AErr (List GraphAS)
  | [] => .ok []
  | g :: gs =>
    match deserGraphA g with
    | .error e => .error e
    | .ok g' => match deserGraphsA gs with
      | .error e => .error e
      | .ok gs' => .ok (g' :: gs')
end

/-! ## serialization -/

mutual
def serAttrA : AttrS → Except AErr AttrP
  | .leaf name doc ty val =>
    match kindOf ty with
    | .sparse => .error .sparse
    | .leaf =>
      match val with
      | none => .error .noValue
      | some t => .ok (.mk name (optOut doc) none ty t true emptyGAP [])
    | .graph => .error .noValue
    | .graphs => .error .noValue
    | _ => .error .unsupported
  | .graph name doc g =>
    match serGraphA g with
    | .error e => .error e
    | .ok p => .ok (.mk name (optOut doc) none 5 "" true p [])
  | .graphs name doc gs =>
    match serGraphsA gs with
    | .error e => .error e
    | .ok ps => .ok (.mk name (optOut doc) none 10 "" true emptyGAP ps)
  | .ref name doc r ty => .ok (.mk name (optOut doc) (some r) ty "" true emptyGAP [])
def serAttrsA : List AttrS → Except AErr (List AttrP)
  | [] => .ok []
  | a :: as =>
    match serAttrA a with
    | .error e => .error e
    | .ok p => match serAttrsA as with
      | .error e => .error e
      | .ok ps => .ok (p :: ps)
def serNodeA : NodeAS → Except AErr NodeAP
  | .mk attrs =>
    match serAttrsA attrs with
    | .error e => .error e
    | .ok ps => .ok (.mk ps)
def serNodesA : List NodeAS → Except AErr (List NodeAP)
  | [] => .ok []
  | n :: ns =>
    match serNodeA n with
    | .error e => .error e
    | .ok p => match serNodesA ns with
      | .error e => .error e
      | .ok ps => .ok (p :: ps)
def serGraphA : GraphAS → Except AErr GraphAP
  | .mk nodes =>
    match serNodesA nodes with
    | .error e => .error e
    | .ok ps => .ok (.mk ps)
def serGraphsA : List GraphAS → Except AErr (List GraphAP)
  | [] => .ok []
  | g :: gs =>
    match serGraphA g with
    | .error e => .error e
    | .ok p => match serGraphsA gs with
      | .error e => .error e
      | .ok ps => .ok (p :: ps)
end

/-! ## alignment with `NodeP.subs` / `NodeT.subs`: the graphs of the attributes, concatenated in order -/

/-- the graphs `_deserialize_attribute` visits for one attribute (a reference attribute holds none) -/
def AttrP.subs : AttrP → List GraphAP
  | .mk _ _ ref ty _ _ g gs =>
    match optOut ref with
    | some _ => []
    | none =>
      match kindOf ty with
      | .graph => [g]
      | .graphs => gs
      | _ => []

/-- `NodeP.subs` of a node with the attribute list `as` is `subsOfP (survivors as)` -/
def subsOfP : List AttrP → List GraphAP
  | [] => []
  | a :: as => a.subs ++ subsOfP as

def AttrS.subs : AttrS → List GraphAS
  | .graph _ _ g => [g]
  | .graphs _ _ gs => gs
  | _ => []

def subsOfS : List AttrS → List GraphAS
  | [] => []
  | a :: as => a.subs ++ subsOfS as

/-- the surviving attributes of a `NodeProto` attribute list, in dict order -/
def survivors (as : List AttrP) : List AttrP := (kvDict (as.map fun a => (a.name, a))).map (·.2)

/-! ## representation invariant of the IR side (decidable; evaluated by the driver on every generated model)

the attribute dict of a node has distinct keys and every attribute sits under its own name; a reference
attribute has a non-empty `ref_attr_name` (an empty one is written and read back as "not a reference") and its
type is an `AttributeType` member. -/

mutual
def wfAttrB : AttrS → Bool
  | .leaf _ _ _ _ => true
  | .graph _ _ g => wfGraphAB g
  | .graphs _ _ gs => wfGraphsAB gs
  | .ref _ _ r ty => !(r == "") && !(kindOf ty == .unknown)
def wfAttrsB : List AttrS → Bool
  | [] => true
  | a :: as => wfAttrB a && wfAttrsB as
def wfNodeAB : NodeAS → Bool
  | .mk attrs => keysNodupB (attrs.map AttrS.name) && wfAttrsB attrs
def wfNodesAB : List NodeAS → Bool
  | [] => true
  | n :: ns => wfNodeAB n && wfNodesAB ns
def wfGraphAB : GraphAS → Bool
  | .mk nodes => wfNodesAB nodes
def wfGraphsAB : List GraphAS → Bool
  | [] => true
  | g :: gs => wfGraphAB g && wfGraphsAB gs
end

/-! ## what a round trip keeps: everything but a falsy doc_string (`if from_.doc_string:`) -/

mutual
def canonAttrA : AttrS → AttrS
  | .leaf n d ty v => .leaf n (optOut d) ty v
  | .graph n d g => .graph n (optOut d) (canonGraphA g)
  | .graphs n d gs => .graphs n (optOut d) (canonGraphsA gs)
  | .ref n d r ty => .ref n (optOut d) r ty
def canonAttrsA : List AttrS → List AttrS
  | [] => []
  | a :: as => canonAttrA a :: canonAttrsA as
def canonNodeA : NodeAS → NodeAS
  | .mk attrs => .mk (canonAttrsA attrs)
def canonNodesA : List NodeAS → List NodeAS
  | [] => []
  | n :: ns => canonNodeA n :: canonNodesA ns
def canonGraphA : GraphAS → GraphAS
  | .mk nodes => .mk (canonNodesA nodes)
def canonGraphsA : List GraphAS → List GraphAS
  | [] => []
  | g :: gs => canonGraphA g :: canonGraphsA gs
end

/-- no attribute has the doc_string `""` (decidable; its share is published) -/
def docOkB (d : Option String) : Bool := !(d == some "")

mutual
def normAttrB : AttrS → Bool
  | .leaf _ d _ _ => docOkB d
  | .graph _ d g => docOkB d && normGraphAB g
  | .graphs _ d gs => docOkB d && normGraphsAB gs
  | .ref _ d _ _ => docOkB d
def normAttrsB : List AttrS → Bool
  | [] => true
  | a :: as => normAttrB a && normAttrsB as
def normNodeAB : NodeAS → Bool
  | .mk attrs => normAttrsB attrs
def normNodesAB : List NodeAS → Bool
  | [] => true
  | n :: ns => normNodeAB n && normNodesAB ns
def normGraphAB : GraphAS → Bool
  | .mk nodes => normNodesAB nodes
def normGraphsAB : List GraphAS → Bool
  | [] => true
  | g :: gs => normGraphAB g && normGraphsAB gs
end

/-! ## the model: main graph and function bodies -/

structure FuncAP where
  id : FId
  nodes : List NodeAP

structure ModelAP where
  graph : GraphAP
  funcs : List FuncAP

structure ModelAS where
  graph : GraphAS
  funcs : List (FId × List NodeAS)

/-- 623-627: every function is deserialized, in order; `{func.identifier(): func}` afterwards -/
def deserFuncsA (d : List (FId × List NodeAS)) : List FuncAP → Except AErr (List (FId × List NodeAS))
  | [] => .ok d
  | f :: fs =>
    match deserNodesA f.nodes with
    | .error e => .error e
    | .ok ns => deserFuncsA (kvSet d f.id ns) fs

def deserModelA (m : ModelAP) : Except AErr ModelAS :=
  match deserGraphA m.graph with
  | .error e => .error e
  | .ok g =>
    match deserFuncsA [] m.funcs with
    | .error e => .error e
    | .ok fs => .ok ⟨g, fs⟩

def serFuncsA : List (FId × List NodeAS) → Except AErr (List FuncAP)
  | [] => .ok []
  | f :: fs =>
    match serNodesA f.2 with
    | .error e => .error e
    | .ok ns => match serFuncsA fs with
      | .error e => .error e
      | .ok ps => .ok (⟨f.1, ns⟩ :: ps)

def serModelA (m : ModelAS) : Except AErr ModelAP :=
  match serGraphA m.graph with
  | .error e => .error e
  | .ok g =>
    match serFuncsA m.funcs with
    | .error e => .error e
    | .ok fs => .ok ⟨g, fs⟩

def wfModelAB (m : ModelAS) : Bool :=
  wfGraphAB m.graph && fidsNodupB (m.funcs.map (·.1)) && m.funcs.all fun f => wfNodesAB f.2

def normModelAB (m : ModelAS) : Bool := normGraphAB m.graph && m.funcs.all fun f => normNodesAB f.2

def canonModelA (m : ModelAS) : ModelAS := ⟨canonGraphA m.graph, m.funcs.map fun f => (f.1, canonNodesA f.2)⟩

/-! ## core + decorations + attributes side by side -/

structure YModelP where
  x : XModelP
  attrs : ModelAP

structure YWorld where
  x : XWorld
  attrs : ModelAS

inductive YErr where
  | x (e : XErr)
  | attr (e : AErr)

/-- `deserialize_model` -/
def deserializeY (p : YModelP) : Except YErr YWorld :=
  match deserializeX p.x with
  | .error e => .error (.x e)
  | .ok w =>
    match deserModelA p.attrs with
    | .error e => .error (.attr e)
    | .ok a => .ok ⟨w, a⟩

/-- `serialize_model` -/
def serializeY (w : YWorld) : Except YErr (YWorld × YModelP) :=
  match serializeX w.x with
  | .error e => .error (.x e)
  | .ok (w1, q) =>
    match serModelA w.attrs with
    | .error e => .error (.attr e)
    | .ok a => .ok (⟨w1, w.attrs⟩, ⟨q, a⟩)

end IrVerif.Scope

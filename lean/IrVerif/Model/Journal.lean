/-
Model of `onnx_ir.journaling` (src/onnx_ir/journaling/_journaling.py, _wrappers.py).

What is modelled, as the code is written:

* the *method table*: the 43 class attributes named in `get_original_methods`
  (_wrappers.py 134-196); a table maps a slot to an implementation, which is either the
  original function of some slot or a wrapper closure `wrap j k inner` created by journal `j`
  for slot `k` around whatever was installed before (`wrap_ir_classes`, 199-466, wraps
  `original_methods[...]`, i.e. the table that was current at `__enter__`);
* `Journal.__enter__` (_journaling.py 157-170): refuse (RuntimeError, nothing changed) when this
  journal object is already active; otherwise active := True; previous := current; current :=
  self; captured := the current table; install one wrapper per slot;
* `Journal.__exit__` (171-175): reinstall the captured table; current := previous; active :=
  False.  It returns None, so an exception raised in the block propagates;
* the four wrapper factories (_wrappers.py 32-134).  Order of effects as written:
  `_init_wrapper`: original; then `details_func(self)`; then record; result None.
  `_setter_wrapper`: read the old value and build the details string; original; record; result
  None (the wrapper has no return statement).  `_method_wrapper`, `_container_method_wrapper`:
  details; original; record; return the original's result.  In all four an exception of the
  original propagates before `record` is reached: a call that raises leaves no entry.  The
  container wrapper records on `getattr(self, target_attr)` (the owning graph / node), read before
  the call, not on the container;
* `Journal.record` (182-196): appends an entry whose only designation of the object is a
  weak reference (plus the integer `id`), the operation name and strings;
* the instrumented operations themselves are abstract: `Cfg.impl k self arg` is the behaviour of
  the original function of slot `k` as an interaction tree (`Prog`): it reads and writes an
  abstract IR state, calls other instrumented operations *through the current table* (that is
  how `Graph.append` reaches the patched `Node.graph` setter), sees their result (so it can catch
  an exception) and finally returns a value or raises.

* the `details` expression (`repr` of the arguments, `getattr(self, "_name")`, ...) is evaluated by
  the wrapper at a definite point: for a setter / method / container method BEFORE the original is
  called, for a constructor AFTER the original has run.  The model keeps that point and what the
  evaluation can do besides producing a string (`Cfg.details`): raise (the wrapper then raises at
  that point), or change the state (e.g. consume a one-shot iterable argument).  The strings
  themselves are not modelled.

Not modelled (see harness/c20.py ASSUMPTIONS): hooks (`add_hook`); recursion depth consumed by
wrappers; user code that calls a captured bound method instead of looking the operation up on the
class; what the fields `timestamp`, `class_`, `stack_trace`, `details` of an entry contain.
-/
namespace IrVerif.Journal

abbrev Obj := Nat

inductive Kind where
  | init | setter | method | container
  deriving DecidableEq, Repr, Inhabited

structure SlotInfo where
  key : String
  kind : Kind
  op : String
  /-- `property_name` of a setter wrapper, `target_attr` of a container wrapper, else empty -/
  attr : String
  deriving Repr

/-- The table of `get_original_methods` / `wrap_ir_classes`, in the order of the dictionary
    (_wrappers.py 140-194 and 207-464). -/
def slots : List SlotInfo := [
  ⟨"TensorBase.__init__", .init, "init", ""⟩,
  ⟨"Node.__init__", .init, "init", ""⟩,
  ⟨"Node.name.fset", .setter, "set_name", "_name"⟩,
  ⟨"Node.domain.fset", .setter, "set_domain", "_domain"⟩,
  ⟨"Node.version.fset", .setter, "set_version", "_version"⟩,
  ⟨"Node.op_type.fset", .setter, "set_op_type", "_op_type"⟩,
  ⟨"Node.overload.fset", .setter, "set_overload", "_overload"⟩,
  ⟨"Node.resize_inputs", .method, "resize_inputs", ""⟩,
  ⟨"Node.prepend", .method, "prepend", ""⟩,
  ⟨"Node.append", .method, "append", ""⟩,
  ⟨"Node.resize_outputs", .method, "resize_outputs", ""⟩,
  ⟨"Node.graph.fset", .method, "set_graph", ""⟩,
  ⟨"Value.__init__", .init, "init", ""⟩,
  ⟨"Value.name.fset", .setter, "set_name", "_name"⟩,
  ⟨"Value.type.fset", .setter, "set_type", "_type"⟩,
  ⟨"Value.shape.fset", .setter, "set_shape", "_shape"⟩,
  ⟨"Value.const_value.fset", .setter, "set_const_value", "_const_value"⟩,
  ⟨"Value.replace_all_uses_with", .method, "replace_all_uses_with", ""⟩,
  ⟨"Value.merge_shapes", .method, "merge_shapes", ""⟩,
  ⟨"Graph.__init__", .init, "init", ""⟩,
  ⟨"Graph.register_initializer", .method, "register_initializer", ""⟩,
  ⟨"Graph.append", .method, "append", ""⟩,
  ⟨"Graph.extend", .method, "extend", ""⟩,
  ⟨"Graph.remove", .method, "remove", ""⟩,
  ⟨"Graph.insert_after", .method, "insert_after", ""⟩,
  ⟨"Graph.insert_before", .method, "insert_before", ""⟩,
  ⟨"Graph.sort", .method, "sort", ""⟩,
  ⟨"Model.__init__", .init, "init", ""⟩,
  ⟨"Function.__init__", .init, "init", ""⟩,
  ⟨"Function.name.fset", .setter, "set_name", "_name"⟩,
  ⟨"Function.domain.fset", .setter, "set_domain", "_domain"⟩,
  ⟨"Function.overload.fset", .setter, "set_overload", "_overload"⟩,
  ⟨"Attr.__init__", .init, "init", ""⟩,
  ⟨"_GraphIO.append", .container, "append_io", "_graph"⟩,
  ⟨"_GraphIO.extend", .container, "extend_io", "_graph"⟩,
  ⟨"_GraphIO.insert", .container, "insert_io", "_graph"⟩,
  ⟨"_GraphIO.pop", .container, "pop_io", "_graph"⟩,
  ⟨"_GraphIO.remove", .container, "remove_io", "_graph"⟩,
  ⟨"_GraphIO.clear", .container, "clear_io", "_graph"⟩,
  ⟨"_GraphIO.__setitem__", .container, "set_io", "_graph"⟩,
  ⟨"GraphInitializers.__setitem__", .container, "set_initializer", "_graph"⟩,
  ⟨"GraphInitializers.__delitem__", .container, "delete_initializer", "_graph"⟩,
  ⟨"Attributes.__setitem__", .container, "set_attribute", "_owner"⟩
]

def nSlots : Nat := slots.length

/-- Kind of the wrapper installed in slot `k` (slots outside the table: `method`). -/
def kindOf (k : Nat) : Kind := match slots[k]? with
  | some s => s.kind
  | none => .method

def opOf (k : Nat) : String := match slots[k]? with
  | some s => s.op
  | none => ""

/-- An implementation installed in the table: the original function of slot `k`, or the closure
    made by journal `j` for slot `k` around `inner`. -/
inductive Impl where
  | orig (k : Nat)
  | wrap (j : Nat) (k : Nat) (inner : Impl)
  deriving DecidableEq, Repr, Inhabited

abbrev Table := Nat → Impl

def pristine : Table := fun k => .orig k

/-- Python values as far as the wrappers can tell them apart. -/
inductive Val where
  | none
  | int (n : Int)
  | ref (o : Obj)
  deriving DecidableEq, Repr, Inhabited

inductive Outcome where
  | ret (v : Val)
  | raise (e : Nat)
  deriving DecidableEq, Repr, Inhabited

/-- How an entry designates the object it is about. `Journal.record` only ever builds `weak`. -/
inductive Handle where
  | weak (o : Obj)
  | strong (o : Obj)
  deriving DecidableEq, Repr

/-- `JournalEntry` (_journaling.py 26-50): `operation`, `ref` (weak), `object_id` (an integer).
    `timestamp`, `class_`, `class_name`, `stack_trace` (FrameSummary: file name, line, name, text;
    locals are not captured) and `details` (a string) designate no IR instance and are not
    represented. -/
structure Entry where
  slot : Nat
  operation : String
  ref : Handle
  objectId : Nat
  deriving DecidableEq, Repr

def Entry.strong (e : Entry) : List Obj := match e.ref with
  | .strong o => [o]
  | .weak _ => []

/-- `Journal.record(obj, operation, ...)`'s entry (182-193). -/
def mkEntry (k : Nat) (target : Obj) : Entry :=
  { slot := k, operation := opOf k, ref := .weak target, objectId := target }

structure JState where
  entries : List Entry := []
  previous : Option Nat := none
  /-- `_original_methods`; `none` models the empty dict of a journal that was never entered -/
  captured : Option Table := none
  /-- `_active` -/
  active : Bool := false

/-- Ghost events: what actually executed.  `start`/`finish` are emitted by the *original*
    function bodies (not by wrappers); `enter`/`exit` mark `__enter__`/`__exit__`. -/
inductive Ev where
  | start (k : Nat) (self : Obj)
  | finish (k : Nat) (self : Obj) (o : Outcome)
  | enter (j : Nat)
  | exit (j : Nat)
  deriving DecidableEq, Repr

structure World (σ : Type) where
  ir : σ
  table : Table
  current : Option Nat
  journals : Nat → JState
  /-- ghost: events in execution order -/
  trace : List Ev
  /-- ghost: outcome of every top-level user operation, in order -/
  log : List Outcome

def upd {α : Type} (f : Nat → α) (j : Nat) (v : α) : Nat → α := fun i => if i = j then v else f i

/-- Behaviour of an original function: an interaction tree over the abstract IR state. -/
inductive Prog (σ : Type) where
  | done (o : Outcome)
  | get (k : σ → Prog σ)
  | put (s : σ) (k : Prog σ)
  | call (slot : Nat) (self : Obj) (arg : Val) (k : Outcome → Prog σ)

structure Cfg (σ : Type) where
  /-- body of the original function of each slot -/
  impl : Nat → Obj → Val → Prog σ
  /-- `_graph` of an input/output/initializer container, `_owner` of an attribute container
      (assigned once in the container's constructor, _graph_containers.py 31, 265, 438) -/
  owner : Obj → Obj
  /-- evaluating the wrapper's `details` expression for slot `k`, called on `self` with `arg`, in
      this state: `none` = it raises, `some s'` = it returns and leaves the state `s'` (the state
      includes one-shot iterables passed as arguments) -/
  details : Nat → Obj → Val → σ → Option σ

def targetOf (owner : Obj → Obj) (k : Nat) (self : Obj) : Obj :=
  if kindOf k = .container then owner self else self

/-- `journal.record(target, operation)`: append to that journal's entries. -/
def record {σ : Type} (j k : Nat) (target : Obj) (w : World σ) : World σ :=
  let js := w.journals j
  { w with journals := upd w.journals j { js with entries := js.entries ++ [mkEntry k target] } }

def emit {σ : Type} (e : Ev) (w : World σ) : World σ := { w with trace := w.trace ++ [e] }

/-- Run a program; `disp` resolves a call to an instrumented operation (through the table). -/
def runProg {σ : Type} (disp : Nat → Obj → Val → World σ → World σ × Outcome) :
    Prog σ → World σ → World σ × Outcome
  | .done o, w => (w, o)
  | .get k, w => runProg disp (k w.ir) w
  | .put s k, w => runProg disp k { w with ir := s }
  | .call slot self arg k, w =>
      let r := disp slot self arg w
      runProg disp (k r.2) r.1

/-- exception raised when a `details` expression raises (e.g. AttributeError from `repr`) -/
def detailsExn : Nat := 1

/-- Call an installed implementation. `body k` runs the original function of slot `k`. -/
def runImpl {σ : Type} (cfg : Cfg σ)
    (body : Nat → Obj → Val → World σ → World σ × Outcome) :
    Impl → Obj → Val → World σ → World σ × Outcome
  | .orig k, self, arg, w => body k self arg w
  | .wrap j k inner, self, arg, w =>
      match kindOf k with
      | .init =>
          -- _init_wrapper: original_init(self, ...); journal.record(self, "init", details_func(self))
          let r := runImpl cfg body inner self arg w
          match r.2 with
          | .ret _ =>
              match cfg.details k self arg r.1.ir with
              | some s' => (record j k self { r.1 with ir := s' }, .ret .none)
              | none => (r.1, .raise detailsExn)
          | .raise e => (r.1, .raise e)
      | kind =>
          -- _setter_wrapper / _method_wrapper / _container_method_wrapper:
          -- details = ...; result = original(self, ...); journal.record(target, operation, details)
          match cfg.details k self arg w.ir with
          | none => (w, .raise detailsExn)
          | some s' =>
              let r := runImpl cfg body inner self arg { w with ir := s' }
              match r.2 with
              | .ret v =>
                  (record j k (targetOf cfg.owner k self) r.1,
                    .ret (if kind = .setter then .none else v))
              | .raise e => (r.1, .raise e)

/-- exception used when the nesting fuel runs out (stands for RecursionError) -/
def fuelExn : Nat := 0

/-- The original function of slot `k` running: ghost start event, its body, ghost finish event. -/
def runOrig {σ : Type} (cfg : Cfg σ) (disp : Nat → Obj → Val → World σ → World σ × Outcome)
    (k : Nat) (self : Obj) (arg : Val) (w : World σ) : World σ × Outcome :=
  let r := runProg disp (cfg.impl k self arg) (emit (.start k self) w)
  (emit (.finish k self r.2) r.1, r.2)

/-- Attribute lookup on the class + call: whatever is installed in the slot runs.  `fuel` bounds
    the nesting depth of original bodies (wrappers do not consume it). -/
def dispatch {σ : Type} (cfg : Cfg σ) : Nat → Nat → Obj → Val → World σ → World σ × Outcome
  | 0, _, _, _, w => (w, .raise fuelExn)
  | f + 1, slot, self, arg, w =>
      runImpl cfg (runOrig cfg (dispatch cfg f)) (w.table slot) self arg w

/-- exception of a refused `__enter__` (RuntimeError: this Journal is already active) -/
def enterExn : Nat := 2

/-- `Journal.__enter__` after its guard (_journaling.py 166-170, _wrappers.py 199-466). -/
def enterRaw {σ : Type} (j : Nat) (w : World σ) : World σ :=
  let js := w.journals j
  { w with
    current := some j
    journals := upd w.journals j
      { js with active := true, previous := w.current, captured := some w.table }
    table := fun k => .wrap j k (w.table k)
    trace := w.trace ++ [.enter j] }

/-- `Journal.__enter__` (157-170): `none` = refused with RuntimeError, nothing changed. -/
def enter {σ : Type} (j : Nat) (w : World σ) : Option (World σ) :=
  if (w.journals j).active then none else some (enterRaw j w)

/-- `Journal.__exit__` (171-175, _wrappers.py 469-578).  With `captured = none` (never entered)
    Python raises KeyError before changing anything; `withJ` never gets there. -/
def exit {σ : Type} (j : Nat) (w : World σ) : World σ :=
  let js := w.journals j
  match js.captured with
  | none => w
  | some t =>
    { w with table := t, current := js.previous,
             journals := upd w.journals j { js with active := false },
             trace := w.trace ++ [.exit j] }

/-- User code around the IR operations. -/
inductive Block (σ : Type) where
  | skip
  /-- user code at this point: calls instrumented operations, may raise -/
  | op (p : Prog σ)
  | seq (a b : Block σ)
  /-- `with journal_j: body` -/
  | withJ (j : Nat) (body : Block σ)
  /-- `try: body` / `except Exception: pass` -/
  | attempt (body : Block σ)

/-- Result: the world and the exception propagating out of the block, if any. -/
def runBlock {σ : Type} (cfg : Cfg σ) (fuel : Nat) : Block σ → World σ → World σ × Option Nat
  | .skip, w => (w, none)
  | .op p, w =>
      let r := runProg (dispatch cfg fuel) p w
      ({ r.1 with log := r.1.log ++ [r.2] },
        match r.2 with
        | .ret _ => none
        | .raise e => some e)
  | .seq a b, w =>
      let r := runBlock cfg fuel a w
      match r.2 with
      | none => runBlock cfg fuel b r.1
      | some e => (r.1, some e)
  | .withJ j body, w =>
      match enter j w with
      | none => (w, some enterExn)   -- `__enter__` raised: the body does not run, no `__exit__`
      | some w1 =>
        let r := runBlock cfg fuel body w1
        (exit j r.1, r.2)
  | .attempt body, w =>
      ((runBlock cfg fuel body w).1, none)

/-- The same user code without any journal. -/
def strip {σ : Type} : Block σ → Block σ
  | .skip => .skip
  | .op p => .op p
  | .seq a b => .seq (strip a) (strip b)
  | .withJ _ body => strip body
  | .attempt body => .attempt (strip body)

/-- Journals entered somewhere in the block. -/
def journalsOf {σ : Type} : Block σ → List Nat
  | .skip => []
  | .op _ => []
  | .seq a b => journalsOf a ++ journalsOf b
  | .withJ j body => j :: journalsOf body
  | .attempt body => journalsOf body

/-- No journal object is entered again while it is already active inside the block (such an
    `__enter__` is refused with RuntimeError). -/
def NoReentry {σ : Type} : Block σ → Prop
  | .skip => True
  | .op _ => True
  | .seq a b => NoReentry a ∧ NoReentry b
  | .withJ j body => j ∉ journalsOf body ∧ NoReentry body
  | .attempt body => NoReentry body

/-- What the journal is supposed to contain, given what executed: one entry per *completed*
    instrumented operation, in order of completion.  An operation that raises contributes nothing
    (operations that completed inside it keep their entries).  The entry designates `self`, or the
    owning graph / node for container methods.  `active` is whether journal `j` is entered. -/
def expectedFor (owner : Obj → Obj) (j : Nat) : Bool → List Ev → List Entry
  | _, [] => []
  | act, .start _ _ :: t => expectedFor owner j act t
  | act, .finish k self (.ret _) :: t =>
      if act then mkEntry k (targetOf owner k self) :: expectedFor owner j act t
      else expectedFor owner j act t
  | act, .finish _ _ (.raise _) :: t => expectedFor owner j act t
  | act, .enter i :: t => expectedFor owner j (if i = j then true else act) t
  | act, .exit i :: t => expectedFor owner j (if i = j then false else act) t

def isCall : Ev → Bool
  | .start .. => true
  | .finish .. => true
  | _ => false

/-- Strong references to IR instances held by the journals' entries. -/
def heldBy (js : JState) : List Obj := js.entries.flatMap Entry.strong

def initialWorld {σ : Type} (s : σ) : World σ :=
  { ir := s, table := pristine, current := none, journals := fun _ => {}, trace := [], log := [] }

/-- chain of journal ids of the wrappers installed in front of an original, outermost first -/
def Impl.layers : Impl → List Nat
  | .orig _ => []
  | .wrap j _ inner => j :: inner.layers

/-- number of wrappers made by journal `j` in a chain -/
def Impl.cnt (j : Nat) : Impl → Nat
  | .orig _ => 0
  | .wrap i _ inner => (if i = j then 1 else 0) + inner.cnt j

def Impl.base : Impl → Nat
  | .orig k => k
  | .wrap _ _ inner => inner.base

/-! ## Round 3: the installed table entry by entry, the entry as the dataclass is, exit faults

Everything below is additional; nothing above is changed. -/

/-- how `wrap_ir_classes` installs a slot: plain attribute assignment of a method, of `__init__`,
    or a new `property(fget, wrapper)` -/
inductive Install where
  | method | ctor | propSetter
  deriving DecidableEq, Repr

def Install.str : Install → String
  | .method => "method" | .ctor => "constructor" | .propSetter => "property-setter"

/-- One piece of a `details` string.  Every piece evaluates to a `String` (a `repr` / `str` / `len`
    of something), never to the object itself. -/
inductive Piece where
  | lit (s : String)
  /-- `repr(self)` -/
  | reprSelf
  /-- `self.__class__.__name__` -/
  | selfClass
  /-- `repr(getattr(self, a))` -/
  | reprSelfAttr (a : String)
  /-- `str(getattr(self, a))` -/
  | strSelfAttr (a : String)
  /-- `len(getattr(self, a))` printed -/
  | lenSelfAttr (a : String)
  /-- `repr(arg_i)`; when the argument is not passed, the printed default -/
  | reprArg (i : Nat) (dflt : String)
  /-- `str(arg_i)` (plain `{x}` in an f-string); when not passed, the printed default -/
  | strArg (i : Nat) (dflt : String)
  /-- `repr(arg_i.name if isinstance(arg_i, Graph) else arg_i)` (_wrappers.py 268-270) -/
  | reprNameIfGraph (i : Nat)
  deriving DecidableEq, Repr

/-- the `details` expression of a wrapper: `None`, or a concatenation of pieces -/
inductive DSpec where
  | none
  | fmt (ps : List Piece)
  deriving DecidableEq, Repr

/-- What a `details` expression can look at, already as strings / numbers: the `repr`s are taken by
    Python at the moment of the call; the model only sees their text. -/
structure DEnv where
  reprSelf : String := ""
  className : String := ""
  attrRepr : String → String := fun _ => ""
  attrStr : String → String := fun _ => ""
  attrLen : String → Nat := fun _ => 0
  /-- positional arguments after `self` that were passed: their `repr` -/
  argRepr : Nat → Option String := fun _ => none
  argStr : Nat → Option String := fun _ => none
  argIsGraph : Nat → Bool := fun _ => false
  /-- `repr(arg_i.name)` -/
  argNameRepr : Nat → String := fun _ => ""

def Piece.eval (e : DEnv) : Piece → String
  | .lit s => s
  | .reprSelf => e.reprSelf
  | .selfClass => e.className
  | .reprSelfAttr a => e.attrRepr a
  | .strSelfAttr a => e.attrStr a
  | .lenSelfAttr a => toString (e.attrLen a)
  | .reprArg i d => (e.argRepr i).getD d
  | .strArg i d => (e.argStr i).getD d
  | .reprNameIfGraph i => if e.argIsGraph i then e.argNameRepr i else (e.argRepr i).getD ""

/-- the value of the `details=` argument of `journal.record`: `None` or a `str` -/
def DSpec.eval (e : DEnv) : DSpec → Option String
  | .none => Option.none
  | .fmt ps => some (String.join (ps.map (Piece.eval e)))

structure SlotMeta where
  /-- class whose attribute is replaced (module `_core` or `_graph_containers`) -/
  cls : String
  /-- the attribute of that class -/
  attr : String
  install : Install
  /-- the wrapper's `details` expression (for setter wrappers: the f-string of `_setter_wrapper`) -/
  details : DSpec
  deriving Repr

def setterDetails (prop : String) : DSpec := .fmt [.reprSelfAttr prop, .lit " -> ", .reprArg 0 ""]
def ioDetails (rest : List Piece) : DSpec := .fmt ([.lit "[", .selfClass, .lit "]"] ++ rest)
def kvDetails : DSpec := .fmt [.lit "key=", .reprArg 0 "", .lit ", value=", .reprArg 1 ""]
def insertDetails : DSpec := .fmt [.lit "node=", .reprArg 0 "", .lit ", new_nodes=", .reprArg 1 ""]

/-- what `wrap_ir_classes` installs where, and with which `details` expression, slot by slot in the
    order of `slots` (_wrappers.py 207-464); compared entry by entry with the real closures and the
    source text on every run (`journal.meta`, `journal.probe`). -/
def slotMeta : List SlotMeta := [
  ⟨"TensorBase", "__init__", .ctor, .none⟩,
  ⟨"Node", "__init__", .ctor, .fmt [.reprSelf]⟩,
  ⟨"Node", "name", .propSetter, setterDetails "_name"⟩,
  ⟨"Node", "domain", .propSetter, setterDetails "_domain"⟩,
  ⟨"Node", "version", .propSetter, setterDetails "_version"⟩,
  ⟨"Node", "op_type", .propSetter, setterDetails "_op_type"⟩,
  ⟨"Node", "overload", .propSetter, setterDetails "_overload"⟩,
  ⟨"Node", "resize_inputs", .method, .fmt [.lenSelfAttr "_inputs", .lit " -> ", .strArg 0 ""]⟩,
  ⟨"Node", "prepend", .method, .fmt [.reprArg 0 ""]⟩,
  ⟨"Node", "append", .method, .fmt [.reprArg 0 ""]⟩,
  ⟨"Node", "resize_outputs", .method, .fmt [.lenSelfAttr "_outputs", .lit " -> ", .strArg 0 ""]⟩,
  ⟨"Node", "graph", .propSetter, .fmt [.reprNameIfGraph 0]⟩,
  ⟨"Value", "__init__", .ctor, .fmt [.reprSelf]⟩,
  ⟨"Value", "name", .propSetter, setterDetails "_name"⟩,
  ⟨"Value", "type", .propSetter, setterDetails "_type"⟩,
  ⟨"Value", "shape", .propSetter, setterDetails "_shape"⟩,
  ⟨"Value", "const_value", .propSetter, setterDetails "_const_value"⟩,
  ⟨"Value", "replace_all_uses_with", .method,
    .fmt [.lit "replacement=", .reprArg 0 "", .lit ", replace_graph_outputs=", .strArg 1 "False"]⟩,
  ⟨"Value", "merge_shapes", .method,
    .fmt [.lit "original=", .reprSelfAttr "_shape", .lit ", other=", .reprArg 0 ""]⟩,
  ⟨"Graph", "__init__", .ctor, .fmt [.strSelfAttr "name"]⟩,
  ⟨"Graph", "register_initializer", .method, .fmt [.reprArg 0 ""]⟩,
  ⟨"Graph", "append", .method, .fmt [.reprArg 0 ""]⟩,
  ⟨"Graph", "extend", .method, .fmt [.reprArg 0 ""]⟩,
  ⟨"Graph", "remove", .method, .fmt [.lit "nodes=", .reprArg 0 "", .lit ", safe=", .strArg 1 "False"]⟩,
  ⟨"Graph", "insert_after", .method, insertDetails⟩,
  ⟨"Graph", "insert_before", .method, insertDetails⟩,
  ⟨"Graph", "sort", .method, .none⟩,
  ⟨"Model", "__init__", .ctor, .fmt [.reprSelf]⟩,
  ⟨"Function", "__init__", .ctor, .fmt [.reprSelf]⟩,
  ⟨"Function", "name", .propSetter, setterDetails "_name"⟩,
  ⟨"Function", "domain", .propSetter, setterDetails "_domain"⟩,
  ⟨"Function", "overload", .propSetter, setterDetails "_overload"⟩,
  ⟨"Attr", "__init__", .ctor, .fmt [.reprSelf]⟩,
  ⟨"_GraphIO", "append", .method, ioDetails [.lit " ", .reprArg 0 ""]⟩,
  ⟨"_GraphIO", "extend", .method, ioDetails [.lit " ", .reprArg 0 ""]⟩,
  ⟨"_GraphIO", "insert", .method, ioDetails [.lit " ", .reprArg 1 ""]⟩,
  ⟨"_GraphIO", "pop", .method, ioDetails [.lit " index=", .strArg 0 "-1"]⟩,
  ⟨"_GraphIO", "remove", .method, ioDetails [.lit " ", .reprArg 0 ""]⟩,
  ⟨"_GraphIO", "clear", .method, ioDetails []⟩,
  ⟨"_GraphIO", "__setitem__", .method, ioDetails [.lit " index=", .strArg 0 "", .lit ", item=", .reprArg 1 ""]⟩,
  ⟨"GraphInitializers", "__setitem__", .method, kvDetails⟩,
  ⟨"GraphInitializers", "__delitem__", .method, .fmt [.lit "key=", .reprArg 0 ""]⟩,
  ⟨"Attributes", "__setitem__", .method, kvDetails⟩
]

def metaOf (k : Nat) : SlotMeta := slotMeta.getD k ⟨"", "", .method, .none⟩

/-- the key under which `get_original_methods` stores the slot -/
def SlotMeta.key (m : SlotMeta) : String :=
  m.cls ++ "." ++ m.attr ++ (if m.install = .propSetter then ".fset" else "")

/-- the `details` of slot `k` evaluated on an environment of `repr`s: `None` or a string -/
def detailsOf (k : Nat) (e : DEnv) : Option String := (metaOf k).details.eval e

/-! ### order of effects inside a wrapper, *derived from `runImpl`* (not a second table)

A probe configuration: the IR state is a log; the body of the original appends `1`, the `details`
expression appends `2`.  Running one wrapper of slot `k` through `runImpl` and reading the log tells
whether `details` is evaluated before or after the original; running it with a raising original and
counting the entries tells whether `record` comes after the original. -/

def probeCfg (bodyOk : Bool) : Cfg (List Nat) :=
  { impl := fun _ _ _ => .get fun s => .put (s ++ [1]) (.done (if bodyOk then .ret (.int 7) else .raise 9)),
    owner := fun o => o + 1000,
    details := fun _ _ _ s => some (s ++ [2]) }

def probeRun (bodyOk : Bool) (k : Nat) : World (List Nat) × Outcome :=
  dispatch (probeCfg bodyOk) 2 k 5 .none (enterRaw 0 (initialWorld []))

/-- `details` is evaluated before the original runs -/
def detailsBefore (k : Nat) : Bool := (probeRun true k).1.ir = [2, 1]
/-- the entry is written after the original returned (so a raising original leaves no entry) -/
def recordAfter (k : Nat) : Bool :=
  ((probeRun false k).1.journals 0).entries.length = 0 ∧ ((probeRun true k).1.journals 0).entries.length = 1
/-- the wrapper hands the original's return value back -/
def returnsResult (k : Nat) : Bool := (probeRun true k).2 = .ret (.int 7)
/-- the object the entry is about is `self` (false: the owner read from `target_attr`) -/
def recordsSelf (k : Nat) : Bool :=
  ((probeRun true k).1.journals 0).entries.map (·.objectId) = [5]

/-! ### a journal entry as the dataclass is (_journaling.py 26-50) -/

/-- `traceback.FrameSummary` as `extract_stack` builds it: strings and a line number; `locals` is
    not captured -/
structure Frame where
  filename : String
  lineno : Nat
  name : String
  line : String
  deriving DecidableEq, Repr

/-- a Python value that can sit in a field of `JournalEntry`.  `inst o` is a strong reference to an
    instance; `weak o` a `weakref.ref`; `cls c` a class object (no instance). -/
inductive FVal where
  | float (bits : Nat)
  | str (s : String)
  | optStr (s : Option String)
  | cls (name : String)
  | int (n : Nat)
  | weak (o : Option Obj)
  | frames (fs : List Frame)
  | inst (o : Obj)
  deriving DecidableEq, Repr

/-- instances kept alive by a field value -/
def FVal.strong : FVal → List Obj
  | .inst o => [o]
  | _ => []

/-- Python type of a field value, as `type(x).__name__` prints it -/
def FVal.tyName : FVal → String
  | .float _ => "float"
  | .str _ => "str"
  | .optStr none => "NoneType"
  | .optStr (some _) => "str"
  | .cls _ => "type"
  | .int _ => "int"
  | .weak none => "NoneType"
  | .weak (some _) => "ReferenceType"
  | .frames _ => "list"
  | .inst _ => "instance"

/-- the eight fields of the frozen dataclass `JournalEntry`, in declaration order -/
structure EntryFull where
  timestamp : FVal
  operation : FVal
  class_ : FVal
  class_name : FVal
  ref : FVal
  object_id : FVal
  stack_trace : FVal
  details : FVal
  deriving DecidableEq, Repr

def EntryFull.fields (e : EntryFull) : List (String × FVal) :=
  [("timestamp", e.timestamp), ("operation", e.operation), ("class_", e.class_),
   ("class_name", e.class_name), ("ref", e.ref), ("object_id", e.object_id),
   ("stack_trace", e.stack_trace), ("details", e.details)]

/-- `Journal.record(obj, operation, details)` (_journaling.py 182-193): what is stored.  `obj = none`
    is `record(None, ...)`.  `clock` is `time.time()`, `stack` is `_get_stack_trace()`. -/
def recordFull (operation : String) (obj : Option Obj) (className : String) (clock : Nat)
    (stack : List Frame) (details : Option String) : EntryFull :=
  { timestamp := .float clock, operation := .str operation, class_ := .cls className,
    class_name := .str className, ref := .weak obj, object_id := .int (obj.getD 0),
    stack_trace := .frames stack, details := .optStr details }

/-- the entry a wrapper of slot `k` writes for target `t` -/
def recordSlot (k : Nat) (t : Obj) (className : String) (clock : Nat) (stack : List Frame)
    (e : DEnv) : EntryFull :=
  recordFull (opOf k) (some t) className clock stack (detailsOf k e)

/-- the part of a full entry that `Entry` keeps -/
def EntryFull.core (k : Nat) (e : EntryFull) : Option Entry :=
  match e.operation, e.ref, e.object_id with
  | .str op, .weak (some o), .int n => some { slot := k, operation := op, ref := .weak o, objectId := n }
  | _, _, _ => none

/-! ### `__exit__` interrupted inside `restore_ir_classes` -/

/-- `Journal.__exit__` when the `n`-th step of `restore_ir_classes` raises (_wrappers.py 469-578 is a
    straight line of 43 assignments in the order of the table; _journaling.py 171-175 resets
    `_current_journal` and `_active` only after it): slots before `n` are restored, the others keep
    what is installed, the current journal and the active flag stay as they are.  The exception
    propagates (not represented in the world). -/
def exitFail {σ : Type} (j n : Nat) (w : World σ) : World σ :=
  match (w.journals j).captured with
  | none => w
  | some t => { w with table := fun k => if k < n then t k else w.table k }

/-- flat control events: raw `__enter__` / `__exit__` calls in time order (a generator that holds
    a `with journal:` open is resumed and closed at arbitrary moments) -/
def runCtl {σ : Type} : List (Nat × Bool) → World σ → World σ
  | [], w => w
  | (j, true) :: rest, w => runCtl rest ((enter j w).getD w)
  | (j, false) :: rest, w => runCtl rest (exit j w)

/-! ## Round 4: flat enter / exit / operation words, captured callables

Additional; nothing above is changed. -/

/-- one event of a flat history: a raw `__enter__`, a raw `__exit__` (called with `(None, None, None)`
    or with the triple of an exception that is propagating: `exc`), or user code that calls
    instrumented operations -/
inductive FEv (σ : Type) where
  | enter (j : Nat)
  /-- `Journal.__exit__(exc_type, exc_value, exc_tb)` (_journaling.py 171-175) does not look at its
      arguments and returns None: the same effect on both paths; an exception keeps propagating -/
  | exit (j : Nat) (exc : Bool)
  | op (p : Prog σ)

/-- A flat history.  A refused `__enter__` (RuntimeError) changes nothing; `exit` of a journal that was
    never entered changes nothing (KeyError before the first assignment); the outcome of user code is
    logged and the history goes on (the caller caught the exception, or an `ExitStack` unwinds). -/
def runFlat {σ : Type} (cfg : Cfg σ) (fuel : Nat) : List (FEv σ) → World σ → World σ
  | [], w => w
  | .enter j :: r, w => runFlat cfg fuel r ((enter j w).getD w)
  | .exit j _ :: r, w => runFlat cfg fuel r (exit j w)
  | .op p :: r, w =>
      let x := runProg (dispatch cfg fuel) p w
      runFlat cfg fuel r { x.1 with log := x.1.log ++ [x.2] }

/-- stack discipline: `st` = the journals that are open, innermost first -/
def wbAux {σ : Type} : List Nat → List (FEv σ) → Bool
  | st, [] => st.isEmpty
  | st, .enter j :: r => !st.contains j && wbAux (j :: st) r
  | st, .exit j _ :: r =>
      match st with
      | t :: st' => t == j && wbAux st' r
      | [] => false
  | st, .op _ :: r => wbAux st r

/-- properly nested: every `exit` leaves the innermost open journal, no journal object is entered
    while it is open, nothing is left open -/
def WellBracketed {σ : Type} (u : List (FEv σ)) : Prop := wbAux [] u = true

instance {σ : Type} (u : List (FEv σ)) : Decidable (WellBracketed u) := by
  unfold WellBracketed; infer_instance

/-- journals entered somewhere in the word -/
def flatEnters {σ : Type} : List (FEv σ) → List Nat
  | [] => []
  | .enter j :: r => j :: flatEnters r
  | _ :: r => flatEnters r

/-- journals exited somewhere in the word -/
def flatExits {σ : Type} : List (FEv σ) → List Nat
  | [] => []
  | .exit j _ :: r => j :: flatExits r
  | _ :: r => flatExits r

/-- A callable taken from an instance (`m = graph.append`) or from the class (`f = Graph.append`;
    `Node.name.fset`): Python looks the attribute up at that moment, so the callable is whatever the
    class table held THEN, bound to the receiver; later changes of the table do not affect it. -/
structure Captured where
  impl : Impl
  self : Obj
  deriving DecidableEq, Repr

/-- `m = getattr(obj, name)` at world `w` -/
def capture {σ : Type} (slot : Nat) (self : Obj) (w : World σ) : Captured :=
  { impl := w.table slot, self := self }

/-- `m(arg)`: the captured implementation runs (its wrappers, if any, belong to the journals that
    were entered when it was captured); the calls made by the original's body go through the table
    that is current NOW. -/
def callCaptured {σ : Type} (cfg : Cfg σ) : Nat → Captured → Val → World σ → World σ × Outcome
  | 0, _, _, w => (w, .raise fuelExn)
  | f + 1, c, arg, w => runImpl cfg (runOrig cfg (dispatch cfg f)) c.impl c.self arg w

/-- proposed fix D471 (proposed_fixes/D471.diff): a wrapper whose journal is not active only forwards -/
def runImplGuarded {σ : Type} (cfg : Cfg σ)
    (body : Nat → Obj → Val → World σ → World σ × Outcome) :
    Impl → Obj → Val → World σ → World σ × Outcome
  | .orig k, self, arg, w => body k self arg w
  | .wrap j k inner, self, arg, w =>
      match kindOf k with
      | .init =>
          -- the constructor wrapper looks at `journal._active` where it would record
          let r := runImplGuarded cfg body inner self arg w
          match r.2 with
          | .ret _ =>
              if !(r.1.journals j).active then (r.1, .ret .none) else
              match cfg.details k self arg r.1.ir with
              | some s' => (record j k self { r.1 with ir := s' }, .ret .none)
              | none => (r.1, .raise detailsExn)
          | .raise e => (r.1, .raise e)
      | kind =>
          -- the other three look at it first and only forward when it is false: `return original_method(...)`;
          -- the setter wrapper forwards with `original_setter(self, value); return`, i.e. it hands back None
          if !(w.journals j).active then
            let r := runImplGuarded cfg body inner self arg w
            (r.1, match r.2 with
                  | .ret v => .ret (if kind = .setter then .none else v)
                  | .raise e => .raise e)
          else
          match cfg.details k self arg w.ir with
          | none => (w, .raise detailsExn)
          | some s' =>
              let r := runImplGuarded cfg body inner self arg { w with ir := s' }
              match r.2 with
              | .ret v =>
                  (record j k (targetOf cfg.owner k self) r.1,
                    .ret (if kind = .setter then .none else v))
              | .raise e => (r.1, .raise e)

/-! the `_active` check inside a wrapper, *derived from `runImplGuarded`* like the order of effects above: one
    wrapper of journal 0 on slot `k` whose journal is NOT active, on the probe configuration -/

def probeWorldInactive : World (List Nat) :=
  let w := enterRaw 0 (initialWorld [])
  { w with journals := upd w.journals 0 { (w.journals 0) with active := false } }

def probeRunG (bodyOk : Bool) (k : Nat) : World (List Nat) × Outcome :=
  runImplGuarded (probeCfg bodyOk) (fun _ _ _ w => ({ w with ir := w.ir ++ [1] }, if bodyOk then .ret (.int 7) else .raise 9))
    (probeWorldInactive.table k) 5 .none probeWorldInactive

/-- an inactive wrapper only forwards: the original runs once, the `details` expression is not evaluated (for a
    setter: the old value is not read), nothing is recorded -/
def guardForwards (k : Nat) : Bool :=
  (probeRunG true k).1.ir = [1] ∧ ((probeRunG true k).1.journals 0).entries.length = 0
/-- ... and hands the original's result back (false: None) -/
def guardReturnsResult (k : Nat) : Bool := (probeRunG true k).2 = .ret (.int 7)
/-- ... and lets the original's exception through -/
def guardPropagates (k : Nat) : Bool := (probeRunG false k).2 = .raise 9 ∧ (probeRunG false k).1.ir = [1]

def callCapturedGuarded {σ : Type} (cfg : Cfg σ) : Nat → Captured → Val → World σ → World σ × Outcome
  | 0, _, _, w => (w, .raise fuelExn)
  | f + 1, c, arg, w => runImplGuarded cfg (runOrig cfg (dispatch cfg f)) c.impl c.self arg w

/-! ## Round 5: the code as it is since repo commit 1a1144b, everywhere

`runImplGuarded` is one wrapper chain with the `journal._active` check; `callCapturedGuarded` still sent the
NESTED calls of the original through the unchecked `dispatch`.  Below every lookup on the class - the call itself
and every nested instrumented call - runs the checked wrappers: this is what /repo executes.  Additional; nothing
above is changed. -/

/-- attribute lookup on the class + call, all wrappers with the `_active` check (_wrappers.py 47-52, 74-85,
    105-115, 137-148), also for the calls the original's body makes -/
def dispatchG {σ : Type} (cfg : Cfg σ) : Nat → Nat → Obj → Val → World σ → World σ × Outcome
  | 0, _, _, _, w => (w, .raise fuelExn)
  | f + 1, slot, self, arg, w =>
      runImplGuarded cfg (runOrig cfg (dispatchG cfg f)) (w.table slot) self arg w

/-- `runBlock` over the checked wrappers -/
def runBlockG {σ : Type} (cfg : Cfg σ) (fuel : Nat) : Block σ → World σ → World σ × Option Nat
  | .skip, w => (w, none)
  | .op p, w =>
      let r := runProg (dispatchG cfg fuel) p w
      ({ r.1 with log := r.1.log ++ [r.2] },
        match r.2 with
        | .ret _ => none
        | .raise e => some e)
  | .seq a b, w =>
      let r := runBlockG cfg fuel a w
      match r.2 with
      | none => runBlockG cfg fuel b r.1
      | some e => (r.1, some e)
  | .withJ j body, w =>
      match enter j w with
      | none => (w, some enterExn)
      | some w1 =>
        let r := runBlockG cfg fuel body w1
        (exit j r.1, r.2)
  | .attempt body, w =>
      ((runBlockG cfg fuel body w).1, none)

/-- `runFlat` over the checked wrappers: for ANY word, properly nested or not (a stale wrapper left in the class
    table by exits out of order only forwards) -/
def runFlatG {σ : Type} (cfg : Cfg σ) (fuel : Nat) : List (FEv σ) → World σ → World σ
  | [], w => w
  | .enter j :: r, w => runFlatG cfg fuel r ((enter j w).getD w)
  | .exit j _ :: r, w => runFlatG cfg fuel r (exit j w)
  | .op p :: r, w =>
      let x := runProg (dispatchG cfg fuel) p w
      runFlatG cfg fuel r { x.1 with log := x.1.log ++ [x.2] }

/-- a kept callable called: its own wrappers AND the nested lookups are the checked ones -/
def callCapturedG {σ : Type} (cfg : Cfg σ) : Nat → Captured → Val → World σ → World σ × Outcome
  | 0, _, _, w => (w, .raise fuelExn)
  | f + 1, c, arg, w => runImplGuarded cfg (runOrig cfg (dispatchG cfg f)) c.impl c.self arg w

end IrVerif.Journal

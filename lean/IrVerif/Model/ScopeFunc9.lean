/-
The IR version < 10 format of the value info of function values, on top of `IrVerif.Model.ScopeFunc`.

Below IR version 10 a `FunctionProto` has no `value_info`; onnx_ir stores the value info of function values in
the MAIN graph's `value_info` under the name `{domain}::{function}/{value}`.

Python anchors (onnx/ir-py, `src/onnx_ir/serde.py`):
* `_parse_experimental_function_value_info_name`                  583-609  (`partition("::")`, then `partition("/")`)
* `deserialize_model`                                             647-651  (the post-pass, when `ir_version < 10`)
* `_deserialized_experimental_value_info_for_function_ir9`        700-746  (mapping function id -> value name ->
  entry, the last entry wins, overload is always ""; applied to the function inputs, then to the outputs of the
  function's own nodes, for every function of the dict)
* `serialize_model_into`                                          1592-1602 (`create_value_info=False`, then the
  experimental entries are appended to the main graph's value_info, function by function)
* `_serialize_experimental_value_info_for_function_ir9_into`      1741-1809 (nothing for a function with an overload;
  inputs, then the outputs of the function's own nodes: name set, something to say, `can_be_parsed_back`)

`reserved` is the set of names for which no experimental entry is written: since the repair of D320 (/repo
f0d2984) the names of the main graph's top-level values (`reservedNames`; `serializeM9 true`, which is what the
driver runs and the correspondence check compares with the real code).  `serializeM9 false` is the code BEFORE
that repair (`reserved = []`), kept to state the refutation `C17_ir9_not_idempotent`.
Core Lean only.
-/
import IrVerif.Model.ScopeFunc
namespace IrVerif.Scope

def isPrefixL : List Char → List Char → Bool
  | [], _ => true
  | _ :: _, [] => false
  | a :: as, b :: bs => a == b && isPrefixL as bs

/-- `s.partition(sep)` on character lists: the text before and after the LEFTMOST occurrence of `sep` -/
def splitFirstL (sep : List Char) : List Char → Option (List Char × List Char)
  | [] => if sep.isEmpty then some ([], []) else none
  | c :: cs =>
    if isPrefixL sep (c :: cs) then some ([], (c :: cs).drop sep.length)
    else match splitFirstL sep cs with
      | none => none
      | some (a, b) => some (c :: a, b)

def splitFirst (sep s : String) : Option (String × String) :=
  match splitFirstL sep.toList s.toList with
  | none => none
  | some (a, b) => some (String.ofList a, String.ofList b)

/-- `_parse_experimental_function_value_info_name` -/
def parseExp (name : String) : Option (String × String × String) :=
  match splitFirst "::" name with
  | none => none
  | some (d, rest) =>
    match splitFirst "/" rest with
    | none => none
    | some (f, v) => some (d, f, v)

/-- `f"{function.domain}::{function.name}/{value_name}"` -/
def formatExp (d f v : String) : String := d ++ "::" ++ f ++ "/" ++ v

/-! ## deserialization: the post-pass -/

/-- `function_value_value_info_mapping[fid]`, oldest entry first (an entry is recorded only when a function
    with the identifier (domain, name, "") exists) -/
def expEntriesFor (fids : List FId) (vi : List VInfoP) (fid : FId) : List (Name × Info) :=
  vi.filterMap fun e =>
    match parseExp e.name with
    | none => none
    | some (d, f, v) =>
      if (⟨d, f, ""⟩ : FId) = fid && fids.contains ⟨d, f, ""⟩ then some (v, e.info) else none

/-- `if value.name in mapping: deserialize_value_info_proto(mapping[value.name], value)` for a list of values -/
def applyInfos (st : Store) (tbl : List (Name × Info)) : List Nat → Store
  | [] => st
  | v :: vs =>
    match (st.vals v).name with
    | none => applyInfos st tbl vs
    | some n =>
      match tbl.lookup n with
      | some i => applyInfos (st.modify v fun c => { c with info := i }) tbl vs
      | none => applyInfos st tbl vs

/-- 733-745 for one function: its inputs, then the outputs of its own nodes -/
def applyExpFunc (vi : List VInfoP) (fids : List FId) (st : Store) (f : FId × GraphT) : Store :=
  let tbl := (expEntriesFor fids vi f.1).reverse
  match f.2 with
  | .mk _ ins _ nodes _ => applyInfos (applyInfos st tbl ins) tbl (nodes.flatMap NodeT.outputs)

/-- `deserialize_model` for `ir_version < 10` -/
def deserializeM9 (p : ModelP) : Except Err MWorld :=
  match deserializeM p with
  | .error e => .error e
  | .ok m => .ok { m with st := m.funcs.foldl (applyExpFunc p.graph.vinfo (m.funcs.map (·.1))) m.st }

/-! ## serialization -/

/-- `can_be_parsed_back` (1768-1775), with the names for which no entry is written -/
def canParseBack (reserved : List Name) (id : FId) (v : Name) : Bool :=
  !reserved.contains (formatExp id.domain id.name v) &&
    parseExp (formatExp id.domain id.name v) == some (id.domain, id.name, v)

def expVInfo (vals : Nat → ValueS) (reserved : List Name) (id : FId) : List Nat → List VInfoP
  | [] => []
  | v :: vs =>
    let c := vals v
    if nameTruthy c.name && shouldCreate c && canParseBack reserved id (c.name.getD "") then
      ⟨formatExp id.domain id.name (c.name.getD ""), c.info.emit⟩ :: expVInfo vals reserved id vs
    else expVInfo vals reserved id vs

/-- `_serialize_experimental_value_info_for_function_ir9_into` -/
def expOfFunc (vals : Nat → ValueS) (reserved : List Name) (f : FId × GraphT) : List VInfoP :=
  if f.1.overload != "" then []
  else match f.2 with
    | .mk _ ins _ nodes _ =>
      expVInfo vals reserved f.1 ins ++ expVInfo vals reserved f.1 (nodes.flatMap NodeT.outputs)

/-- `main_graph_value_names` of `serialize_model_into` (D320): the names of the values the main graph's value_info
    is looked up with on load: inputs and outputs of the top-level nodes, initializer names -/
def reservedNames (vals : Nat → ValueS) : GraphT → List Name
  | .mk _ _ inits nodes _ =>
    ((nodes.flatMap fun n => n.inputs.filterMap id ++ n.outputs).filterMap fun v =>
      match (vals v).name with
      | some n => if n = "" then none else some n
      | none => none) ++ (inits.map (·.1)).filter (· != "")

def addVInfo (extra : List VInfoP) : GraphP → GraphP
  | .mk i t vi n o => .mk i t (vi ++ extra) n o

/-- `serialize_model` for `ir_version < 10`: the functions are written without value_info
    (`create_value_info=False`; same error points as with it), the experimental entries are appended to the
    main graph's value_info.  `fixed = true` is the code as it is (D320 repaired), `false` the code before. -/
def serializeM9 (fixed : Bool) (w : MWorld) : Except SErr (MWorld × ModelP) :=
  match serializeM w with
  | .error e => .error e
  | .ok (w1, q) =>
    let reserved := if fixed then reservedNames w.st.vals w.root else []
    .ok (w1, ⟨addVInfo (w.funcs.flatMap (expOfFunc w.st.vals reserved)) q.graph,
      q.funcs.map fun f => { f with vinfo := [] }⟩)

end IrVerif.Scope

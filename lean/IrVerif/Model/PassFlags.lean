import IrVerif.Model.Passes
/-!
# Model/PassFlags.lean - the `modified` flag of the built-in passes, on C05's pass models (property C14)

C05's models (`Model/Passes.lean`, imported read-only) compute the transformed model only.  Here the
`count` / `modified` bookkeeping of the same passes is transcribed next to them: every function below
walks the model exactly as the C05 function of the same name does and counts where the Python does
`count += 1` / `modified = True`.  Core Lean only.
-/
namespace IrVerif.PassFlags
open IrVerif.Sem IrVerif.Passes

/-! ## sizes used as measures -/

mutual
/-- number of nodes of a graph, nested graphs included -/
def nodesG : Graph → Nat
  | .mk _ _ _ nodes => nodesNodes nodes
def nodesNodes : List Node → Nat
  | [] => 0
  | .mk _ _ _ _ bodies :: ns => 1 + nodesBodies bodies + nodesNodes ns
def nodesBodies : List Graph → Nat
  | [] => 0
  | b :: bs => nodesG b + nodesBodies bs
end

mutual
/-- number of initializers of a graph, nested graphs included -/
def initsG : Graph → Nat
  | .mk _ _ inits nodes => inits.length + initsNodes nodes
def initsNodes : List Node → Nat
  | [] => 0
  | .mk _ _ _ _ bodies :: ns => initsBodies bodies + initsNodes ns
def initsBodies : List Graph → Nat
  | [] => 0
  | b :: bs => initsG b + initsBodies bs
end

mutual
/-- nodes + input slots of a graph, nested graphs included -/
def slotsG : Graph → Nat
  | .mk _ _ _ nodes => slotsNodes nodes
def slotsNodes : List Node → Nat
  | [] => 0
  | .mk _ _ ins _ bodies :: ns => 1 + ins.length + slotsBodies bodies + slotsNodes ns
def slotsBodies : List Graph → Nat
  | [] => 0
  | b :: bs => slotsG b + slotsBodies bs
end

/-! ## LiftConstantsToInitializersPass (constant_manipulation.py 40-90): `count += 1` per lifted
Constant, `modified = bool(count)` -/

mutual
def liftCntG (liftAll : Bool) (limit : Nat) : Graph → Nat
  | .mk _ outputs _ nodes => liftCntNodes liftAll limit outputs nodes
def liftCntNodes (liftAll : Bool) (limit : Nat) (gouts : List VId) : List Node → Nat
  | [] => 0
  | .mk op attrs _ outs bodies :: ns =>
    match liftCandidate liftAll limit gouts op attrs outs with
    | some _ => 1 + liftCntNodes liftAll limit gouts ns
    | none => liftCntBodies liftAll limit bodies + liftCntNodes liftAll limit gouts ns
def liftCntBodies (liftAll : Bool) (limit : Nat) : List Graph → Nat
  | [] => 0
  | b :: bs => liftCntG liftAll limit b + liftCntBodies liftAll limit bs
end

def liftFlag (liftAll : Bool) (limit : Nat) (m : Model) : Bool := liftCntG liftAll limit m.graph != 0

/-! ## DeduplicateInitializersPass / DeduplicateHashedInitializersPass
(initializer_deduplication.py 90-120 / 140-179): `modified = True` per replaced initializer -/

mutual
def dedupCntG (limit : Nat) : Graph → Nat
  | .mk inputs outputs inits nodes =>
    (dedupInits limit (inputs ++ outputs) [] inits).2.length + dedupCntNodes limit nodes
def dedupCntNodes (limit : Nat) : List Node → Nat
  | [] => 0
  | .mk _ _ _ _ bodies :: ns => dedupCntBodies limit bodies + dedupCntNodes limit ns
def dedupCntBodies (limit : Nat) : List Graph → Nat
  | [] => 0
  | b :: bs => dedupCntG limit b + dedupCntBodies limit bs
end

def dedupFlag (limit : Nat) (m : Model) : Bool := dedupCntG limit m.graph != 0

/-! ## RemoveUnusedNodesPass (unused_removal.py 96-141, after fix D38): `count += 1` per removed node,
per kept node whose trailing `None` inputs are trimmed, per removed initializer; the schema-driven
optional-output removal (also counted by the Python) is not part of C05's model -/

mutual
def dceCntG : Graph → Nat
  | .mk _ outputs _ nodes => dceCntNodes outputs [] nodes
def dceCntNodes (gouts : List VId) : List VId → List Node → Nat
  | _, [] => 0
  | pre, .mk op attrs ins outs bodies :: ns =>
    if dceRemovable (gouts ++ (pre ++ usesN (.mk op attrs ins outs bodies)) ++
        usesNodes (dceNodes gouts (pre ++ usesN (.mk op attrs ins outs bodies)) ns).1 ++
        (dceNodes gouts (pre ++ usesN (.mk op attrs ins outs bodies)) ns).2) outs then
      1 + dceCntNodes gouts (pre ++ usesN (.mk op attrs ins outs bodies)) ns
    else
      (if trimTrailingNone ins != ins then 1 else 0) + dceCntBodies bodies +
        dceCntNodes gouts (pre ++ usesN (.mk op attrs ins outs bodies)) ns
def dceCntBodies : List Graph → Nat
  | [] => 0
  | b :: bs => dceCntG b + dceCntBodies bs
end

/-- `RemoveUnusedNodesPass.call`: main graph, removed initializers of the main graph, functions -/
def dceCount (m : Model) : Nat :=
  dceCntG m.graph + (m.graph.inits.length - (dceModel m).graph.inits.length) +
    (m.funcs.map dceCntG).sum

def dceFlag (m : Model) : Bool := dceCount m != 0

/-- the measure of the pass on a model: nodes, input slots and initializers of the main graph and
    nodes and input slots of the functions -/
def dceSize (m : Model) : Nat :=
  slotsG m.graph + m.graph.inits.length + (m.funcs.map slotsG).sum

end IrVerif.PassFlags

import IrVerif.Model.ScopeSerdeBridgeSub
import IrVerif.Model.ScopeFunc
/-!
Definitions of the C02 bridge for MODELS WITH FUNCTIONS (IR version >= 10 format): `absF` / `absM` (proto
abstraction), `absIRM` (IR abstraction: the functions' graphs are numbered after the main graph, each entered at the
running value / node / graph counters, in the order of `functions`), the decidable fragments `sharedM` / `sharedSM`
and the decidable side condition `GOKM`.  Core Lean only (`IrVerif/Lemmas/ScopeSerdeBridgeModel*.lean` prove the theorems).
-/
namespace IrVerif.Bridge
open IrVerif.Proto IrVerif.Serde

def fidP (f : FunctionP) : Scope.FId := ⟨f.domain, f.name, f.overload⟩

def absF (f : FunctionP) : Scope.FuncP :=
  ⟨fidP f, f.inputs, f.outputs, f.valueInfo.map absVI, absNsFull f.nodes⟩

def absM (m : ModelP) : Scope.ModelP := ⟨absGFull m.graph, m.functions.map absF⟩

/-- the Scope model world (with functions) without the derived links -/
structure CoreM where
  cells : List Cell
  root : Scope.GraphT
  funcs : List (Scope.FId × Scope.GraphT)

def coreOfM (w : Scope.MWorld) : CoreM := ⟨(List.range w.st.nv).map (cellAt w.st), w.root, w.funcs⟩

def fidOf (f : IRFunction) : Scope.FId := ⟨f.domain, f.name, f.overload⟩

def cellsFs : List IRFunction → List Cell
  | [] => []
  | f :: fs => cellsG f.graph ++ cellsFs fs

/-- the functions' graphs, each entered at the running counters -/
def treeFs (k nn ng : Nat) : List IRFunction → List (Scope.FId × Scope.GraphT)
  | [] => []
  | f :: fs =>
    (fidOf f, treeG [] k nn ng f.graph)
      :: treeFs (k + (cellsG f.graph).length) (nn + nnG f.graph) (ng + ngG f.graph) fs

/-- the Scope world (without derived links) of a C02 IR model: main graph first, then the functions in order -/
def absIRM (x : IRModel) : CoreM :=
  ⟨cellsG x.graph ++ cellsFs x.functions, treeG [] 0 0 0 x.graph,
   treeFs (cellsG x.graph).length (nnG x.graph) (ngG x.graph) x.functions⟩

/-- the shared fragment for models: C02's `wfModel`, IR version >= 10 (functions carry their own value_info) -/
def sharedM (m : ModelP) : Bool := wfModel m && decide (m.irVersion ≥ 10)

/-- the side conditions of the serialization bridge on a function body: no value-level metadata_props, and the
    same (plus canonical initializer tensors) in every graph nested in its nodes -/
def sideF (f : FunctionP) : Bool :=
  f.valueInfo.all (fun vi => vi.metadata.isEmpty) && allNodes noValueMeta f.nodes && allNodes canonTensors f.nodes

/-- the fragment of the serialization bridge for models -/
def sharedSM (m : ModelP) : Bool :=
  sharedM m && noValueMetaFull m.graph && canonTensorsFull m.graph && m.functions.all sideF

def isTbl : IRGOut → Bool
  | .tbl _ => true
  | .dangling _ => false

/-- `GOKFull` for a function graph: its outputs are table values -/
def okF (f : IRFunction) : Bool := okG [] f.graph && f.graph.outputs.all isTbl

/-- what the simulation of `serialize_model` needs from a C02 IR model (decidable) -/
def GOKM (x : IRModel) : Bool := GOKFull x.graph && x.functions.all okF && decide (x.irVersion ≥ 10)

end IrVerif.Bridge

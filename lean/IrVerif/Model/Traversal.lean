/-
`traversal.RecursiveGraphIterator` (traversal.py:63-118) with *editable node attributes*.

`Model/LinkedSet.lean` reads all graph-valued attributes of a node in one go when the generator is
resumed after `yield node`.  That is exact as long as attributes are not edited.  This file is the
finer transcription: `_iterate_subgraphs(node)` is `for attr in node.attributes.values()`, i.e. a
CPython *dict key iterator* over `node.attributes.data` (`Attributes` is a `UserDict`; `values()` is
`collections.abc.ValuesView`, whose `__iter__` is `for key in self._mapping: yield
self._mapping[key]`).  The dict iterator is created when the generator is resumed after
`yield node` (after the `recursive` predicate was called), and every further attribute is read
only when the iteration of the previous subgraph has ended.  Hence:

* an attribute added / replaced / deleted on a node that has not been resumed yet takes full effect;
* a replaced attribute (same key) of the node whose subgraphs are being visited is seen iff its
  key has not been reached; a `GRAPHS` tuple that is being walked is immutable (`Attr.__init__`
  stores `tuple(value)`), so the graphs still to be entered from it are fixed;
* adding or deleting a key of the node whose subgraphs are being visited makes the dict iterator
  raise `RuntimeError("dictionary changed size during iteration")` at its next step (CPython
  `dictiter_iternextkey`: `di_used != ma_used`), or - when the size is the same again - continue
  over the entries table by position (deleted slots skipped, new keys appended, the table
  compacted when it is full: `insertion_resize`), raising "dictionary keys changed during
  iteration" when more keys are found than there were at the start.  The exception propagates
  through every generator of the stack: the iterator is finished.

The dict is modelled at the level of CPython's combined table (Objects/dictobject.c): entries in
insertion order with dead slots, and the number of usable slots left.  Keys are attribute names
(`Attributes.__setitem__` only accepts `str`), identified by numbers.
Only core Lean is imported (linked into `irdriver`).
-/
import IrVerif.Model.LinkedSet
namespace IrVerif.LinkedSet

/-- what `_iterate_subgraphs` distinguishes (traversal.py:82-97): a `GRAPH` attribute, a `GRAPHS`
    attribute, anything else (other types, reference attributes: `attr.is_ref()`) -/
inductive AVal
  | graph (h : Nat)
  | graphs (hs : List Nat)
  | other
deriving Repr, DecidableEq

/-- CPython `dict` with a combined table: `entries` = `dk_entries[0 .. dk_nentries)` (`none` = a
    deleted slot), `usable` = `dk_usable` -/
structure PyDict where
  entries : List (Option (Nat × AVal))
  usable : Nat
deriving Repr, DecidableEq

/-- `{}` (`Py_EMPTY_KEYS`: no entries, nothing usable) -/
def PyDict.empty : PyDict := ⟨[], 0⟩

def PyDict.live (d : PyDict) : List (Nat × AVal) := d.entries.filterMap id
/-- `ma_used` -/
def PyDict.used (d : PyDict) : Nat := d.live.length
def PyDict.has (d : PyDict) (k : Nat) : Bool := d.live.any (fun e => e.1 == k)

/-- `calculate_log2_keysize`: `1 << bit_length(((minsize | 8) - 1) | 7)` -/
def keysize (minsize : Nat) : Nat := 2 ^ (Nat.log2 (((minsize ||| 8) - 1) ||| 7) + 1)

def setSlot (k : Nat) (a : Option AVal) : Option (Nat × AVal) → Option (Nat × AVal)
  | some (k', a') => if k' == k then a.map (fun x => (k, x)) else some (k', a')
  | none => none

/-- `d[k] = a` (`insertdict`): an existing key keeps its slot; a new key is appended, after
    `insertion_resize` (compaction to the live entries, `GROWTH_RATE = used * 3`,
    `USABLE_FRACTION(n) = 2n/3`) when no slot is usable -/
def PyDict.set (d : PyDict) (k : Nat) (a : AVal) : PyDict :=
  if d.has k then { d with entries := d.entries.map (setSlot k (some a)) }
  else
    let d := if d.usable = 0 then
      (⟨d.live.map some, 2 * keysize (d.used * 3) / 3 - d.used⟩ : PyDict) else d
    ⟨d.entries ++ [some (k, a)], d.usable - 1⟩

/-- `del d[k]` (`delitem_common`): the slot dies, nothing else changes; `false` = `KeyError` -/
def PyDict.del (d : PyDict) (k : Nat) : PyDict × Bool :=
  if d.has k then ({ d with entries := d.entries.map (setSlot k none) }, true) else (d, false)

/-- `dictiterobject`: `di_pos`, `len`, `di_used` -/
structure DictIter where
  pos : Nat
  len : Nat
  used : Nat
deriving Repr, DecidableEq

/-- `iter(d)` -/
def DictIter.start (d : PyDict) : DictIter := ⟨0, d.used, d.used⟩

inductive DRes
  | item (k : Nat) (a : AVal)
  | stop
  | raised
deriving Repr, DecidableEq

/-- first live slot at or after position `i` -/
def firstLive : List (Option (Nat × AVal)) → Nat → Option (Nat × Nat × AVal)
  | [], _ => none
  | some (k, a) :: _, i => some (i, k, a)
  | none :: es, i => firstLive es (i + 1)

/-- `dictiter_iternextkey` followed by `self._mapping[key]` -/
def DictIter.next (d : PyDict) (it : DictIter) : DictIter × DRes :=
  if it.used ≠ d.used then (it, .raised)
  else match firstLive (d.entries.drop it.pos) it.pos with
    | none => (it, .stop)
    | some (i, k, a) => if it.len = 0 then (it, .raised) else (⟨i + 1, it.len - 1, it.used⟩, .item k a)

/-- the subgraphs one attribute makes `_iterate_subgraphs` enter, in order (lines 85-110) -/
def AVal.graphsOf (d : Dir) : AVal → List Nat
  | .graph h => [h]
  | .graphs hs => if d = .rev then hs.reverse else hs
  | .other => []

structure TWorld where
  sets : List LSet
  /-- node -> `node.attributes.data` (first match; a node without entry has the empty dict) -/
  attrs : List (Nat × PyDict)
  recf : Option (List Nat)
deriving Repr

def TWorld.setOf (w : TWorld) (g : Nat) : LSet := w.sets.getD g empty
def TWorld.dictOf (w : TWorld) (v : Nat) : PyDict := (w.attrs.lookup v).getD PyDict.empty
def TWorld.recurse (w : TWorld) (v : Nat) : Bool :=
  match w.recf with
  | none => true
  | some l => !l.contains v

/-- all subgraphs a complete `_iterate_subgraphs(v)` enters on the current attributes -/
def TWorld.visit (w : TWorld) (d : Dir) (v : Nat) : List Nat :=
  (w.dictOf v).live.flatMap fun e => e.2.graphsOf d

/-- where the generator of one `_recursive_node_iter(g)` is suspended / what it does next -/
inductive TMode
  /-- in the `for node in iterable` loop (line 71), no node pending -/
  | loop
  /-- suspended at `yield node` (line 72) -/
  | last (v : Nat)
  /-- inside `_iterate_subgraphs(v)` (line 75): the dict iterator over `v.attributes`, and the rest
      of the `GRAPHS` tuple that is being walked (lines 98-99) -/
  | expand (v : Nat) (it : DictIter) (pend : List Nat)
deriving Repr, DecidableEq

structure TFrame where
  g : Nat
  c : Cursor
  mode : TMode
deriving Repr, DecidableEq

def TFrame.fresh (g : Nat) : TFrame := ⟨g, .notStarted, .loop⟩
def tStart (g : Nat) : List TFrame := [TFrame.fresh g]

/-- One step of the generator stack (`recStep` of Model/LinkedSet.lean with lazy attribute reads). -/
def tStep (w : TWorld) (d : Dir) : List TFrame → List TFrame × List Out × Option Res
  | [] => ([], [], some .stop)
  | fr :: rest =>
    match fr.mode with
    | .last v =>
      -- resumed after `yield node`: predicate (line 73); `_iterate_subgraphs(node)` starts: the dict
      -- iterator over `node.attributes` is created (its first step is the next `tStep`; nothing of
      -- the consumer runs in between)
      let evs := if w.recf.isSome then [Out.pred v] else []
      if w.recurse v then
        ({ fr with mode := .expand v (DictIter.start (w.dictOf v)) [] } :: rest, evs, none)
      else ({ fr with mode := .loop } :: rest, evs, none)
    | .expand v it pend =>
      match pend with
      | h :: ps =>
        -- next graph of the `GRAPHS` tuple (lines 99-108)
        (TFrame.fresh h :: { fr with mode := .expand v it ps } :: rest, [Out.enter h], none)
      | [] =>
        match it.next (w.dictOf v) with
        | (it', .item _ (.graph h)) =>
          (TFrame.fresh h :: { fr with mode := .expand v it' [] } :: rest, [Out.enter h], none)
        | (it', .item _ (.graphs hs)) =>
          ({ fr with mode := .expand v it' (if d = .rev then hs.reverse else hs) } :: rest, [], none)
        | (it', .item _ .other) => ({ fr with mode := .expand v it' [] } :: rest, [], none)
        | (_, .stop) => ({ fr with mode := .loop } :: rest, [], none)
        | (_, .raised) => ([], [], some .raised)
    | .loop =>
      let evs := if fr.c = .notStarted then [Out.enter fr.g] else []
      match iterNext (w.setOf fr.g) d fr.c with
      | (c', .yield v) => ({ fr with c := c', mode := .last v } :: rest, evs ++ [Out.yield fr.g v], some (.yield v))
      | (_, .stop) =>
        (rest, evs ++ [Out.exit fr.g] ++ (if rest.isEmpty then [] else [Out.exit fr.g]), none)
      | (c', r) => ({ fr with c := c' } :: rest, evs, some r)

/-- one `next()` -/
def tNext (w : TWorld) (d : Dir) : Nat → List TFrame → List TFrame × List Out × Res
  | 0, st => (st, [], .fuel)
  | f + 1, st =>
    match tStep w d st with
    | (st', o, some r) => (st', o, r)
    | (st', o, none) => let r := tNext w d f st'; (r.1, o ++ r.2.1, r.2.2)

/-- run to exhaustion -/
def tDrain (w : TWorld) (d : Dir) : Nat → List TFrame → List Out × Res
  | 0, _ => ([], .fuel)
  | f + 1, st =>
    match tStep w d st with
    | (st', o, none) => let r := tDrain w d f st'; (o ++ r.1, r.2)
    | (st', o, some (.yield _)) => let r := tDrain w d f st'; (o ++ r.1, r.2)
    | (_, o, some r) => (o, r)

/-! ### edits -/

/-- edit the node container of graph `g` -/
def TWorld.applyAt (w : TWorld) (g : Nat) (op : Op) : TWorld × Bool :=
  let r := apply (w.setOf g) op
  ({ w with sets := w.sets.set g r.1 }, r.2)

def TWorld.setDict (w : TWorld) (v : Nat) (dct : PyDict) : TWorld := { w with attrs := (v, dct) :: w.attrs }

/-- `node.attributes[k] = attr` / `node.attributes.add(attr)` -/
def TWorld.setAttr (w : TWorld) (v k : Nat) (a : AVal) : TWorld := w.setDict v ((w.dictOf v).set k a)

/-- `del node.attributes[k]` / `node.attributes.pop(k)`; `false` = `KeyError`, nothing written -/
def TWorld.delAttr (w : TWorld) (v k : Nat) : TWorld × Bool :=
  let r := (w.dictOf v).del k
  (if r.2 then w.setDict v r.1 else w, r.2)

/-- an event of a history seen by one recursive iterator -/
inductive TEv
  | edit (g : Nat) (op : Op)
  | setAttr (v k : Nat) (a : AVal)
  | delAttr (v k : Nat)
  | next
deriving Repr

def TWorld.applyEv (w : TWorld) : TEv → TWorld
  | .edit g op => (w.applyAt g op).1
  | .setAttr v k a => w.setAttr v k a
  | .delAttr v k => (w.delAttr v k).1
  | .next => w

/-! ### the public mutating methods of `Attributes` (`_graph_containers.py:482-501`)

`Attributes` is a `collections.UserDict`: only `__setitem__` (with its two type checks) and `add` are
defined by the class; `__delitem__` is `UserDict.__delitem__` (`del self.data[key]`); `update`, `pop`,
`popitem`, `clear`, `setdefault` are the mixin methods of `collections.abc.MutableMapping`, written in
terms of `self[key]`, `self[key] = value`, `del self[key]` and `iter(self)`.  Each method is
transcribed as the list of primitive writes on `self.data` it performs, in order, and whether it
returns normally (`false` = `KeyError` / `TypeError`; writes made before the exception stay).
Not transcribed: `|=` (`UserDict.__ior__` writes `self.data` directly, without `__setitem__`). -/

/-- a write on `self.data`: `dict.__setitem__` / `dict.__delitem__` -/
inductive APrim
  | set (k : Nat) (a : AVal)
  | del (k : Nat)
deriving Repr, DecidableEq

def PyDict.prim (d : PyDict) : APrim → PyDict
  | .set k a => d.set k a
  | .del k => (d.del k).1

/-- a value of `none` stands for an object that is not an `Attr` (`__setitem__` raises `TypeError`
    before writing) -/
inductive AMeth
  /-- `attrs[k] = a` (`Attributes.__setitem__`, lines 491-497) -/
  | setitem (k : Nat) (a : Option AVal)
  /-- `attrs.add(attr)` (lines 499-501): `self[value.name] = value` -/
  | add (k : Nat) (a : AVal)
  /-- `attrs.update(mapping or pairs)`: `for key in other: self[key] = other[key]` -/
  | update (kvs : List (Nat × Option AVal))
  /-- `del attrs[k]` -/
  | delitem (k : Nat)
  /-- `attrs.pop(k)` / `attrs.pop(k, default)`: `self[key]`, then `del self[key]` -/
  | pop (k : Nat) (dflt : Bool)
  /-- `attrs.popitem()`: `key = next(iter(self))` (the FIRST key, unlike `dict.popitem`), then
      `del self[key]` -/
  | popitem
  /-- `attrs.clear()`: `popitem()` until it raises `KeyError` -/
  | clear
  /-- `attrs.setdefault(k, default)`: `self[key]`, on `KeyError` `self[key] = default` -/
  | setdefault (k : Nat) (a : Option AVal)
deriving Repr

/-- `MutableMapping.update`: item by item; the first value that is not an `Attr` raises -/
def updPrims : List (Nat × Option AVal) → List APrim × Bool
  | [] => ([], true)
  | (k, some a) :: r => (.set k a :: (updPrims r).1, (updPrims r).2)
  | (_, none) :: _ => ([], false)

/-- `next(iter(self))` -/
def PyDict.firstKey (d : PyDict) : Option Nat := d.live.head?.map (·.1)

/-- `MutableMapping.clear`: the `while True: self.popitem()` loop (at most `n` rounds) -/
def clearPrims : Nat → PyDict → List APrim
  | 0, _ => []
  | n + 1, d =>
    match d.firstKey with
    | some k => .del k :: clearPrims n (d.del k).1
    | none => []

/-- the primitive writes a method call performs on the dict `d`, in order, and whether the call
    returns normally -/
def AMeth.prims (d : PyDict) : AMeth → List APrim × Bool
  | .setitem k (some a) => ([.set k a], true)
  | .setitem _ none => ([], false)
  | .add k a => ([.set k a], true)
  | .update kvs => updPrims kvs
  | .delitem k => if d.has k then ([.del k], true) else ([], false)
  | .pop k dflt => if d.has k then ([.del k], true) else ([], dflt)
  | .popitem =>
    match d.firstKey with
    | some k => ([.del k], true)
    | none => ([], false)
  | .clear => (clearPrims d.used d, true)
  | .setdefault k a =>
    if d.has k then ([], true) else
    match a with
    | some a => ([.set k a], true)
    | none => ([], false)

/-- the dict after a method call -/
def AMeth.run (d : PyDict) (m : AMeth) : PyDict × Bool := ((m.prims d).1.foldl PyDict.prim d, (m.prims d).2)

/-- the event of a history (`TEv`) that a primitive write on the attributes of node `v` is -/
def APrim.toEv (v : Nat) : APrim → TEv
  | .set k a => .setAttr v k a
  | .del k => .delAttr v k

/-- a method call on `node.attributes` of node `v` -/
def TWorld.applyMeth (w : TWorld) (v : Nat) (m : AMeth) : TWorld × Bool :=
  (((m.prims (w.dictOf v)).1.map (APrim.toEv v)).foldl TWorld.applyEv w, (m.prims (w.dictOf v)).2)

/-! #### the documented effect of the methods on the dict seen as an insertion-ordered mapping -/

/-- `d[k] = a` on an insertion-ordered mapping: an existing key keeps its place -/
def omSet (l : List (Nat × AVal)) (k : Nat) (a : AVal) : List (Nat × AVal) :=
  if l.any (fun e => e.1 == k) then l.map (fun e => if e.1 == k then (k, a) else e) else l ++ [(k, a)]

/-- `del d[k]` -/
def omDel (l : List (Nat × AVal)) (k : Nat) : List (Nat × AVal) := l.filter (fun e => e.1 != k)

def updEffect (l : List (Nat × AVal)) : List (Nat × Option AVal) → List (Nat × AVal) × Bool
  | [] => (l, true)
  | (k, some a) :: r => updEffect (omSet l k a) r
  | (_, none) :: _ => (l, false)

/-- what a method call does to the mapping (keys in insertion order with their values) and whether
    it returns normally: the behaviour documented for `dict` / `MutableMapping`, except that
    `popitem` removes the first item -/
def AMeth.effect (l : List (Nat × AVal)) : AMeth → List (Nat × AVal) × Bool
  | .setitem k (some a) => (omSet l k a, true)
  | .setitem _ none => (l, false)
  | .add k a => (omSet l k a, true)
  | .update kvs => updEffect l kvs
  | .delitem k => (omDel l k, l.any (fun e => e.1 == k))
  | .pop k dflt => (omDel l k, l.any (fun e => e.1 == k) || dflt)
  | .popitem =>
    match l with
    | [] => ([], false)
    | e :: _ => (omDel l e.1, true)
  | .clear => ([], true)
  | .setdefault k a =>
    if l.any (fun e => e.1 == k) then (l, true) else
    match a with
    | some a => (l ++ [(k, a)], true)
    | none => (l, false)

/-! ### the view of `Model/LinkedSet.lean`, the pre-order specification, decidable predicates -/

def AVal.toAttr : AVal → Option Attr
  | .graph h => some (.graph h)
  | .graphs hs => some (.graphs hs)
  | .other => none

/-- the world of `Model/LinkedSet.lean` that reads the current attributes in one go -/
def TWorld.toR (w : TWorld) : RWorld :=
  ⟨w.sets, w.attrs.map (fun p => (p.1, p.2.live.filterMap (fun e => e.2.toAttr))), w.recf⟩

/-- the dict iterator is in step with its dict: same size, and `len` = live slots from `pos` on -/
def itOk (dct : PyDict) (it : DictIter) : Bool :=
  it.used == dct.used && it.len == ((dct.entries.drop it.pos).filterMap id).length

/-- what an in-step iterator still produces -/
def itRest (dct : PyDict) (it : DictIter) : List (Nat × AVal) := (dct.entries.drop it.pos).filterMap id

def TFrame.synced (w : TWorld) (fr : TFrame) : Bool :=
  match fr.mode with
  | .expand v it _ => itOk (w.dictOf v) it
  | _ => true

/-! #### the frame of `Model/LinkedSet.lean` that a frame stands for (no attribute edits)

`recStep` reads all attributes of a node in one go (`pending`); `tStep` reads them one by one.  A
frame that is walking an in-step dict iterator corresponds to the coarse frame whose `pending` is
what is left of the `GRAPHS` tuple followed by the subgraphs of the entries not yet reached. -/

def TFrame.toR (w : TWorld) (d : Dir) (fr : TFrame) : RFrame :=
  match fr.mode with
  | .loop => ⟨fr.g, fr.c, none, []⟩
  | .last v => ⟨fr.g, fr.c, some v, []⟩
  | .expand v it pend => ⟨fr.g, fr.c, none, pend ++ (itRest (w.dictOf v) it).flatMap (fun e => e.2.graphsOf d)⟩

/-- every frame's cursor refers to a box of its container (executable form of `TStackOK`) -/
def TFrame.validB (w : TWorld) (fr : TFrame) : Bool := fr.c.pos < size (w.setOf fr.g)

/-- current nesting through the present members -/
def TWorld.kids (w : TWorld) (d : Dir) (g : Nat) : List Nat :=
  ((toList (w.setOf g)).filter w.recurse).flatMap (w.visit d)

def TWorld.hgt (w : TWorld) (d : Dir) (g : Nat) : Nat := hgtG (w.kids d) w.sets.length g

/-- no graph is nested in itself -/
def TWorld.acyclic (w : TWorld) (d : Dir) : Bool :=
  stableG (w.kids d) w.sets.length (List.range w.sets.length)

/-! #### the nodes a complete visit yields, as a plain list (pre-order) -/

/-- the nodes listed in pre-order to depth `< k` over an abstract nest (`nodes g` = the nodes of graph
    `g` in iteration order, `sub v` = the subgraphs entered from node `v`): each node of `g`, followed
    by the listings of the subgraphs entered from it -/
def preord (nodes sub : Nat → List Nat) : Nat → Nat → List Nat
  | 0, _ => []
  | k + 1, g => (nodes g).flatMap fun v => v :: (sub v).flatMap (preord nodes sub k)

/-- the nodes of graph `g` in iteration order -/
def TWorld.nodesD (w : TWorld) (d : Dir) (g : Nat) : List Nat := rest (w.setOf g) d .notStarted

/-- the subgraphs entered from node `v` -/
def TWorld.subD (w : TWorld) (d : Dir) (v : Nat) : List Nat := if w.recurse v then w.visit d v else []

/-! #### decidable tree shape of the current nest (hypothesis of `C11_trav_nodup`) -/

/-- every node that is at present a member of some graph, graph by graph -/
def TWorld.members (w : TWorld) : List Nat :=
  (List.range w.sets.length).flatMap fun g => toList (w.setOf g)

/-- every subgraph reference that a traversal can follow: the subgraphs named by the attributes of
    the present members on which the `recursive` predicate holds, position by position -/
def TWorld.refs (w : TWorld) (d : Dir) : List Nat := (w.members.filter w.recurse).flatMap (w.visit d)

/-- **tree shape**: no graph is nested in itself, no node is a member of two graphs, no graph hangs
    under two attribute positions (no sharing), and the root `g0` hangs under none -/
def TWorld.treeShape (w : TWorld) (d : Dir) (g0 : Nat) : Bool :=
  w.acyclic d && decide w.members.Nodup && decide (w.refs d).Nodup && !(w.refs d).contains g0

/-- the nodes yielded in a stream of events, in order -/
def yieldsOf (os : List Out) : List Nat :=
  os.filterMap fun o =>
    match o with
    | .yield _ v => some v
    | _ => none

/-! #### what remains to be produced (executable: the driver compares it with the drain) -/

/-- after `yield node` -/
def tAfter (V : Nat → List Out) (w : TWorld) (d : Dir) (v : Nat) : List Out :=
  (if w.recf.isSome then [Out.pred v] else []) ++ (if w.recurse v then (w.visit d v).flatMap V else [])

def tLoop (V : Nat → List Out) (w : TWorld) (d : Dir) (g : Nat) (nodes : List Nat) : List Out :=
  nodes.flatMap (fun v => Out.yield g v :: tAfter V w d v) ++ [Out.exit g]

/-- a complete visit of subgraph `h` to nesting depth `< k` -/
def tVisit (w : TWorld) (d : Dir) : Nat → Nat → List Out
  | 0, _ => []
  | k + 1, h => [Out.enter h, Out.enter h] ++
      tLoop (tVisit w d k) w d h (rest (w.setOf h) d .notStarted) ++ [Out.exit h]

/-- what one frame still produces until its generator finishes, own `exit_graph` included
    (in-step dict iterator) -/
def tFrameSpec (V : Nat → List Out) (w : TWorld) (d : Dir) (fr : TFrame) : List Out :=
  (match fr.mode with
   | .last v => tAfter V w d v
   | .expand v it pend => pend.flatMap V ++ (itRest (w.dictOf v) it).flatMap (fun e => (e.2.graphsOf d).flatMap V)
   | .loop => []) ++
  (if fr.c = .notStarted then [Out.enter fr.g] else []) ++
  tLoop V w d fr.g (rest (w.setOf fr.g) d fr.c)

/-- the caller's `exit_graph` after a subgraph's iterator is exhausted -/
def tPop (rest : List TFrame) (g : Nat) : List Out := if rest.isEmpty then [] else [Out.exit g]

/-- everything the iterator still produces: frame by frame, innermost first -/
def tStackSpec (V : Nat → List Out) (w : TWorld) (d : Dir) : List TFrame → List Out
  | [] => []
  | fr :: rest => tFrameSpec V w d fr ++ tPop rest fr.g ++ tStackSpec V w d rest

/-! #### histories of `next()` and node-sequence edits: what a set `X` of nodes must satisfy so that
every node outside `X` is yielded at most once (hypotheses of `C11_trav_untouched_once`) -/

/-- the nodes the iterator still yields when nothing is edited any more -/
def TWorld.fut (w : TWorld) (d : Dir) (st : List TFrame) : List Nat :=
  yieldsOf (tStackSpec (tVisit w d (w.sets.length + 1)) w d st)

/-- `X` is closed under "nested below": everything a complete visit of the subgraphs of a node of
    `X` yields is in `X` -/
def TWorld.closedB (w : TWorld) (d : Dir) (X : List Nat) : Bool :=
  X.all fun v => ((w.subD d v).flatMap (preord (w.nodesD d) (w.subD d) (w.sets.length + 1))).all X.contains

def TWorld.good (w : TWorld) (d : Dir) (X : List Nat) : Bool := w.acyclic d && w.closedB d X

/-- admissible history for the excluded set `X`: only `next()` calls (each returning a node or
    StopIteration within the step bound) and edits of node sequences that touch nodes of `X` only;
    in every world passed through no graph is nested in itself and `X` is closed -/
def tAdm (X : List Nat) (d : Dir) (fuel : Nat) : TWorld → List TFrame → List TEv → Bool
  | w, _, [] => w.good d X
  | w, st, .next :: es =>
      w.good d X &&
      (match (tNext w d fuel st).2.2 with
       | .yield _ => true
       | .stop => true
       | _ => false) &&
      tAdm X d fuel w (tNext w d fuel st).1 es
  | w, st, .edit g op :: es =>
      w.good d X && (touched op).all X.contains && tAdm X d fuel (w.applyAt g op).1 st es
  | _, _, .setAttr _ _ _ :: _ => false
  | _, _, .delAttr _ _ :: _ => false

/-- run a history: final world, final stack, the nodes yielded -/
def tRunY (d : Dir) (fuel : Nat) : TWorld → List TFrame → List TEv → TWorld × List TFrame × List Nat
  | w, st, [] => (w, st, [])
  | w, st, .next :: es =>
      let r := tNext w d fuel st
      let q := tRunY d fuel w r.1 es
      (q.1, q.2.1, yieldsOf r.2.1 ++ q.2.2)
  | w, st, .edit g op :: es => tRunY d fuel (w.applyAt g op).1 st es
  | w, st, .setAttr v k a :: es => tRunY d fuel (w.setAttr v k a) st es
  | w, st, .delAttr v k :: es => tRunY d fuel (w.delAttr v k).1 st es

/-- the nodes a frame is going to yield or is expanding, at its own level -/
def TFrame.ownNodes (w : TWorld) (d : Dir) (fr : TFrame) : List Nat :=
  (match fr.mode with
   | .last v => [v]
   | .expand v _ _ => [v]
   | .loop => []) ++ rest (w.setOf fr.g) d fr.c

end IrVerif.LinkedSet

/-
Model of (a) the `finally` restore loop of `ir.save` / `save_safetensors` step by step, through the
`Value.const_value` setter, and (b) call SEQUENCES of save / load / load_to_model /
unload_from_model at the level of "where does every initializer's data live" (property C07,
deepening round).

Transcribed from
* `src/onnx_ir/_core.py` 3403-3413 (`Value.const_value` setter: in `onnx_ir.DEBUG` mode a non-None
  object that is not a runtime `TensorProtocol` instance raises `TypeError`),
* `src/onnx_ir/_io.py` 207-210 and `_safetensors/__init__.py` (the `finally` loops),
* `src/onnx_ir/_io.py` 19-49 (`load`), `external_data.py` 930-955 (`load_to_model`), 958-1108
  (`unload_from_model`), 426-513 (`_write_external_data`: temp file + `os.replace`, the tensors it
  invalidates), `_safetensors/__init__.py` `_save_file` (shards staged, fix D432).
Core Lean only.
-/
import IrVerif.Model.Layout
namespace IrVerif.Layout

/-! ## The restore loop, through the setter -/

/-- the check of the `const_value` setter: `debug` is `onnx_ir.DEBUG`, `isProto o` is
    `isinstance(o, TensorProtocol)` for tensor object `o` -/
def setterOk (debug : Bool) (isProto : Nat → Bool) (t : Option Nat) : Bool :=
  !debug || (match t with | none => true | some o => isProto o)

/-- `for value, tensor in pairs: value.const_value = tensor`: stops at the first element whose
    assignment raises; returns the store and whether it raised -/
def restoreLoop (debug : Bool) (isProto : Nat → Bool) (st : Store) :
    List (Nat × Option Nat) → Store × Bool
  | [] => (st, false)
  | (v, t) :: rest =>
    if setterOk debug isProto t then restoreLoop debug isProto (st.set v t) rest else (st, true)

/-- `saveRun` with the `finally` block as the loop above: store when the `try` block is left,
    store after the `finally`, and whether the `finally` itself raised -/
def saveRunChecked (debug : Bool) (isProto : Nat → Bool) (st : Store) (plan : SavePlan)
    (stop : Option Nat) : Store × Store × Bool :=
  let done := match stop with
    | none => plan.prog
    | some n => plan.prog.take n
  let mid := execSteps st done
  let r := restoreLoop debug isProto mid (plan.snapshot.map fun v => (v, st v))
  (mid, r.1, r.2)

/-! ## Call sequences -/

/-- where the data of one initializer lives: in the proto / in memory, in a data file, or in a
    data file that has been replaced since the reference was made (`stale`: the object may have
    been invalidated or may silently read other bytes; nothing is claimed about it) -/
inductive Ref (κ : Type)
  | inline (bs : List Nat)
  | ext (file : κ) (off len : Nat)
  | stale
deriving Repr, DecidableEq, Inhabited

section Seq
variable {κ : Type} [DecidableEq κ]

/-- the files of the model directory -/
abbrev FS (κ : Type) := κ → Option (List Nat)

/-- `tensor.tobytes()` -/
def Ref.value (fs : FS κ) : Ref κ → Option (List Nat)
  | .inline bs => some bs
  | .ext f off len => (fs f).map fun img => readAt img off len
  | .stale => none

/-- what one save writes: the files it moves into place (`os.replace`) and, per initializer, the
    reference the saved proto / the re-pointed model holds -/
structure SaveOut (κ : Type) where
  files : List (κ × List Nat)
  refs : List (Ref κ)

/-- the first entry of a name wins (names of one save are pairwise different) -/
def installFiles (fs : FS κ) : List (κ × List Nat) → FS κ
  | [] => fs
  | (g, img) :: rest => fun f => if f = g then some img else installFiles fs rest f

/-- a reference into a file that has just been replaced is stale -/
def Ref.staleIf (written : List κ) : Ref κ → Ref κ
  | .ext f off len => if f ∈ written then .stale else .ext f off len
  | r => r

structure SeqState (κ : Type) where
  fs : FS κ
  mem : List (Ref κ)            -- the caller's model
  disk : Option (List (Ref κ))  -- the initializers of the saved proto, if one was written

/-- a backend with its parameters: from the references the model holds and their bytes to what
    is written (`ir.save(external_data=...)`, `save_safetensors`, `unload_from_model`) -/
abbrev Backend (κ : Type) := List (Ref κ) → List (List Nat) → SaveOut κ

inductive SeqOp (κ : Type)
  | save (b : Backend κ)            -- `ir.save` / `save_safetensors`: the caller's model is restored
  | unload (b : Backend κ)          -- `unload_from_model`: the caller's model is re-pointed in place
  | load                            -- `ir.load` of the saved proto
  | loadToModel                     -- `load_to_model`
  | convertFromExternal (k : Nat)   -- `convert_tensors_from_external` on initializer k, assigned back

/-- all tensors of the model, read (`none`: some tensor cannot be read - outside the contract) -/
def readAll (fs : FS κ) (refs : List (Ref κ)) : Option (List (List Nat)) :=
  if refs.all (fun r => (r.value fs).isSome) then some (refs.map fun r => (r.value fs).getD [])
  else none

def seqStep (s : SeqState κ) : SeqOp κ → Option (SeqState κ)
  | .save b =>
    (readAll s.fs s.mem).map fun vals =>
      let out := b s.mem vals
      let written := out.files.map (·.1)
      { fs := installFiles s.fs out.files
        mem := s.mem.map (Ref.staleIf written)
        disk := some out.refs }
  | .unload b =>
    (readAll s.fs s.mem).map fun vals =>
      let out := b s.mem vals
      let written := out.files.map (·.1)
      { fs := installFiles s.fs out.files
        mem := out.refs
        disk := s.disk.map (·.map (Ref.staleIf written)) }
  | .load => s.disk.map fun refs => { s with mem := refs }
  | .loadToModel => (readAll s.fs s.mem).map fun vals => { s with mem := vals.map Ref.inline }
  | .convertFromExternal k =>
    match s.mem[k]? with
    | some r => (r.value s.fs).map fun bs => { s with mem := s.mem.set k (.inline bs) }
    | none => none

def seqRun (s : SeqState κ) : List (SeqOp κ) → Option (SeqState κ)
  | [] => some s
  | op :: rest => (seqStep s op).bind fun s' => seqRun s' rest

/-- what a backend must deliver (proved for the raw backend from `C07_roundtrip_value` and for the
    safetensors backend from `C07_st_roundtrip`): one reference per initializer, and in the file
    system with the written files in place every reference reads the initializer's bytes -/
def Backend.Ok (b : Backend κ) : Prop :=
  ∀ (refs : List (Ref κ)) (vals : List (List Nat)) (fs : FS κ), refs.length = vals.length →
    (b refs vals).refs.length = vals.length ∧
    ∀ k (hk : k < vals.length), ∃ r, (b refs vals).refs[k]? = some r ∧ r ≠ .stale ∧
      r.value (installFiles fs (b refs vals).files) = some vals[k]

end Seq

/-! ## The two backends as `Backend`s (file key = shard index out of shard count, per base name) -/

/-- file key: (base name id, 0-based shard, shard count); distinct keys are distinct file names by
    `C07_filename_inj` / `C07_filename_ne_base` -/
abbrev FileKey := Nat × Nat × Nat

def Ref.isExt {κ : Type} : Ref κ → Bool
  | .ext .. => true
  | _ => false

/-- the initializers as the save code sees them (all hold a non-string tensor), with their bytes -/
def rawVB (refs : List (Ref FileKey)) (vals : List (List Nat)) : List (Init × List Nat) :=
  List.zipWith (fun r bs => ({ nbytes := bs.length, isExternal := r.isExt }, bs)) refs vals

def keyedFiles (base : Nat) (files : List (List Nat)) : List (FileKey × List Nat) :=
  files.zipIdx.map fun (img, i) => ((base, i, files.length), img)

/-- `ir.save(external_data=base)` / `unload_from_model` on a model whose initializers all hold a
    non-string tensor -/
def rawBackend (base : Nat) (thr : Int) (maxShard : Option Nat) (al : Option Nat) (athr : Nat) :
    Backend FileKey := fun refs vals =>
  let vb := rawVB refs vals
  let files := saveRawFiles vb thr maxShard al athr none
  let consts := unloadRaw (vb.map (·.1)) thr maxShard al athr
  { files := keyedFiles base files
    refs := List.zipWith (fun c bs =>
      match c with
      | .external p => .ext (base, p.shard, files.length) p.offset p.length
      | _ => .inline bs) consts vals }

end IrVerif.Layout

/-
Model for C16 (extension): the surface text SymPy's `str()` emits for the symbolic-dimension
expressions `SymbolicDim` builds (`src/onnx_ir/_core.py` 1484-1647: operator overloads over
`Symbol(name, integer=True, positive=True)`, `_value = str(expr)`).

* `SExpr`: the SymPy expression tree of the fragment (Integer, non-integer Rational, Symbol, Add,
  Mul, Pow, floor / ceiling / Abs / sign / Mod / Max / Min), children in PRINTED order
  (`StrPrinter._as_ordered_terms`, `Mul.as_ordered_factors`, `sorted(args, key=default_sort_key)`
  for Max / Min).
* `sden`: the mathematical meaning as an `Expr` (n-ary operations folded to the left).
* `ppSympy`: transcription of `sympy/printing/str.py` (SymPy 1.14) `_print_Add` (52-72),
  `_print_Mul` evaluated branch (312-376), `_print_Pow` (608-665), `_print_Rational` (712-718),
  `_print_Integer` (677-680), `_print_Function` (161-162), `_print_LatticeOp` (223-225),
  `parenthesize` (35-39) with `printing/precedence.py`, as the token list of the text.
  The `sqrt` spellings of the exponents 1/2 and -1/2 (`sqrt(b)`, `1/sqrt(b)`, `M/sqrt(b)`,
  str.py 610-616 and `apow` in `_print_Mul`) and non-integer Rational exponents (`N**(1/3)`,
  `M/N**(2/3)`) are transcribed (wave 4).  Not transcribed: the `pow_paren` index search
  `b.index(item.base)` is replaced by wrapping the item itself (different only when the same
  base occurs twice among the denominators).
* `surf`: the tree the repository's parser returns on that text (proved in
  `Lemmas/SymExprSympy.lean`).
* `swf`: the canonical-form facts about SymPy trees the equivalence theorem needs.

All recursive functions are instances of one paramorphism `para` (structural recursion through
the nested `List SExpr`).  Core Lean only (linked into the `irdriver` executable).
-/
import IrVerif.Model.SymExpr
namespace IrVerif.SymExpr

inductive SFn where
  | floor | ceiling | abs | sign | mod | max | min
  deriving Repr, DecidableEq, Inhabited

inductive SExpr where
  | int (z : Int)
  /-- a non-integer Rational `p / q` -/
  | rat (p : Int) (q : Nat)
  | sym (s : String)
  | add (ts : List SExpr)
  | mul (fs : List SExpr)
  | pow (b e : SExpr)
  | fn (f : SFn) (args : List SExpr)
  deriving Repr, Inhabited

/-! ## The recursion scheme -/

/-- one case per constructor; children come with their own results -/
structure Alg (α : Type) where
  int : Int → α
  rat : Int → Nat → α
  sym : String → α
  add : List (SExpr × α) → α
  mul : List (SExpr × α) → α
  pow : SExpr → α → SExpr → α → α
  fn : SFn → List (SExpr × α) → α

mutual
def para {α : Type} (A : Alg α) : SExpr → α
  | .int z => A.int z
  | .rat p q => A.rat p q
  | .sym s => A.sym s
  | .add ts => A.add (paraL A ts)
  | .mul fs => A.mul (paraL A fs)
  | .pow b e => A.pow b (para A b) e (para A e)
  | .fn f args => A.fn f (paraL A args)
def paraL {α : Type} (A : Alg α) : List SExpr → List (SExpr × α)
  | [] => []
  | s :: l => (s, para A s) :: paraL A l
end

/-! ## Meaning -/

def foldBin (o : BinOp) (unit : Expr) : List Expr → Expr
  | [] => unit
  | a :: rest => rest.foldl (fun acc x => .bin o acc x) a

def SFn.name : SFn → String
  | .floor => "floor" | .ceiling => "ceiling" | .abs => "Abs" | .sign => "sign"
  | .mod => "Mod" | .max => "Max" | .min => "Min"

/-- a function applied to argument trees; a wrong arity gets the junk value `inf` (excluded by
    `swf`) -/
def fnExpr (f : SFn) (args : List Expr) : Expr :=
  match f, args with
  | .floor, [a] => .un .floor a
  | .ceiling, [a] => .un .ceil a
  | .abs, [a] => .un .abs a
  | .sign, [a] => .un .sign a
  | .mod, [a, b] => .bin .mod a b
  | .max, args => foldBin .max (.inf true) args
  | .min, args => foldBin .min (.inf false) args
  | _, _ => .inf true

/-- the exponent `S.Half` (`Pow(b, 1/2)` is `sqrt(b)`) -/
def isHalf : SExpr → Bool
  | .rat p q => p == 1 && q == 2
  | _ => false

/-- the exponent `-S.Half` -/
def isNegHalf : SExpr → Bool
  | .rat p q => p == -1 && q == 2
  | _ => false

def sdenAlg : Alg Expr where
  int z := .num z
  rat p q := .bin .div (.num p) (.num q)
  sym s := .sym s
  add ts := foldBin .add (.num 0) (ts.map (·.2))
  mul fs := foldBin .mul (.num 1) (fs.map (·.2))
  -- `Pow(b, 1/2)` is what `sympy.sqrt(b)` returns: the model's `sqrt`; `Pow(b, -1/2)` is `1/sqrt(b)`
  pow _ b x e :=
    if isHalf x then .un .sqrt b
    else if isNegHalf x then .bin .div (.num 1) (.un .sqrt b)
    else .bin .pow b e
  fn f args := fnExpr f (args.map (·.2))

/-- the mathematical meaning of the SymPy tree -/
def sden (s : SExpr) : Expr := para sdenAlg s

/-! ## Precedences (`printing/precedence.py`) -/

/-- `as_coeff_Mul()[0] < 0`: a negative number or a product with a negative leading number -/
def negCoeff : SExpr → Bool
  | .int z => z < 0
  | .rat p _ => p < 0
  | .mul (.int z :: _) => z < 0
  | .mul (.rat p _ :: _) => p < 0
  | _ => false

/-- `precedence(item)`: Add 40, Mul 50, Pow 60, Function 70, Atom 1000; negative numbers and
    products that could extract a minus sign 40; positive non-integer Rational 50; Mod 50;
    Max / Min are `Application`s without an entry (Atom) -/
def precS : SExpr → Nat
  | .int z => if z < 0 then 40 else 1000
  | .rat p _ => if p < 0 then 40 else 50
  | .sym _ => 1000
  | .add _ => 40
  | .mul fs => if negCoeff (.mul fs) then 40 else 50
  | .pow _ _ => 60
  | .fn .mod _ => 50
  | .fn .max _ => 1000
  | .fn .min _ => 1000
  | .fn _ _ => 70

def isNegOne : SExpr → Bool
  | .int z => z == -1
  | _ => false

/-- the precedence of the exponent after `apow` negated it (str.py 331-340); only used when
    `negCoeff` holds -/
def precNeg : SExpr → Nat
  | .int _ => 1000
  | .mul [c, y] => if isNegOne c then precS y else 50
  | _ => 50

/-- `parenthesize(item, level, strict=False)` on the printed tokens -/
def par (level prec : Nat) (ts : List Tok) : List Tok := if prec ≤ level then paren ts else ts

def isAddS : SExpr → Bool
  | .add _ => true
  | _ => false

def isMulOrPow : SExpr → Bool
  | .mul _ => true
  | .pow _ _ => true
  | _ => false


/-! ## The printer -/

/-- what the printer knows about a subexpression: its text, the text of its negation (numbers
    and products with a negative coefficient), and, for a power with a negative exponent, the
    text of the entry it contributes to the denominator of a product -/
structure TK where
  toks : List Tok
  neg : List Tok
  den : Nat → List Tok

def intercal (sep : Tok) : List (List Tok) → List Tok
  | [] => []
  | [x] => x
  | x :: rest => x ++ sep :: intercal sep rest

/-- `_print_Add`: `sign` and text per term, then `sign + ' '.join(l)` -/
def addStep (prec : Nat) (tk : SExpr × TK) : Bool × List Tok :=
  let t := tk.2.toks
  let (minus, t) := match t, isAddS tk.1 with
    | .op .minus :: rest, false => (true, rest)
    | t, _ => (false, t)
  if precS tk.1 < prec || isAddS tk.1 then (minus, paren t) else (minus, t)

def addJoin : List (Bool × List Tok) → List Tok
  | [] => []
  | (m, t) :: rest =>
    (if m then [Tok.op .minus] else []) ++ t ++
      (rest.map (fun mt => (if mt.1 then Tok.op .minus else Tok.op .plus) :: mt.2)).flatten

/-- numerator entries of `_print_Mul` (the list `a`), each already parenthesised at `lv` -/
def mulNum (lv : Nat) : List (SExpr × TK) → List (List Tok)
  | [] => []
  | (f, tk) :: rest =>
    (match f with
      | .int z => if z.natAbs ≠ 1 then [[Tok.num z.natAbs]] else []
      | .rat p _ => if p.natAbs ≠ 1 then [[Tok.num p.natAbs]] else []
      | .pow _ e => if negCoeff e then [] else [par lv (precS f) tk.toks]
      | _ => [par lv (precS f) tk.toks]) ++ mulNum lv rest

/-- denominator entries (the list `b`), parenthesised at `lv` (`b_str`, str.py 362) -/
def mulDen (lv : Nat) : List (SExpr × TK) → List (List Tok)
  | [] => []
  | (f, tk) :: rest =>
    (match f with
      | .rat _ q => if q ≠ 1 then [[Tok.num q]] else []
      | .pow _ e => if negCoeff e then [tk.den lv] else []
      | _ => []) ++ mulDen lv rest

/-- the text after the sign: `'*'.join(a_str)`, `/b`, `/(b*b)` -/
def mulBody (lv : Nat) (fs : List (SExpr × TK)) : List Tok :=
  let a := mulNum lv fs
  let a := if a.isEmpty then [[Tok.num 1]] else a
  intercal (.op .star) a ++
    match mulDen lv fs with
    | [] => []
    | [d] => .op .slash :: d
    | ds => .op .slash :: paren (intercal (.op .star) ds)

def ppNat (minus : Bool) (n : Nat) : List Tok := if minus then [.op .minus, .num n] else [.num n]

def tokAlg : Alg TK where
  int z := { toks := ppNat (z < 0) z.natAbs, neg := ppNat (0 < z) z.natAbs, den := fun _ => [] }
  rat p q :=
    { toks := ppNat (p < 0) p.natAbs ++ [.op .slash, .num q],
      neg := ppNat (0 < p) p.natAbs ++ [.op .slash, .num q], den := fun _ => [] }
  sym s := { toks := [.ident s], neg := [], den := fun _ => [] }
  add ts := { toks := addJoin (ts.map (addStep 40)), neg := [], den := fun _ => [] }
  mul fs :=
    let s := SExpr.mul (fs.map (·.1))
    -- `prec = precedence(expr)` is taken BEFORE the sign is split off (str.py 264)
    { toks := if negCoeff s then .op .minus :: mulBody 40 fs else mulBody 50 fs,
      neg := match fs with
        | [(c, _), (_, y)] => if isNegOne c then y.toks else mulBody 50 fs
        | _ => mulBody 50 fs,
      den := fun _ => [] }
  pow b tb e te :=
    { toks :=
        -- str.py 610-616: `sqrt(b)`, `1/sqrt(b)`; 617-621: `1/b`
        if isHalf e then call "sqrt" tb.toks
        else if isNegHalf e then .num 1 :: .op .slash :: call "sqrt" tb.toks
        else if isNegOne e then .num 1 :: .op .slash :: par 60 (precS b) tb.toks
        else par 60 (precS b) tb.toks ++ .op .dstar :: par 60 (precS e) te.toks,
      neg := [],
      den := fun lv =>
        if isNegOne e then
          let d := par lv (precS b) tb.toks
          if isMulOrPow b then paren d else d
        -- `apow` builds `Pow(b, 1/2, evaluate=False)`, printed `sqrt(b)` (precedence 60: no parentheses)
        else if isNegHalf e then call "sqrt" tb.toks
        else par 60 (precS b) tb.toks ++ .op .dstar :: par 60 (precNeg e) te.neg }
  fn f args := { toks := call f.name (intercal .comma (args.map (·.2.toks))), neg := [], den := fun _ => [] }

/-- the tokens of `str(expr)` -/
def ppSympy (s : SExpr) : List Tok := (para tokAlg s).toks

/-! ## The tree the parser returns on that text -/

structure SF where
  e : Expr
  neg : Expr
  den : Expr
  deriving Repr, Inhabited

/-- the tree of a term after `_print_Add` removed its leading `-` -/
def stripNeg : Expr → Expr
  | .un .neg a => a
  | .bin o a b => .bin o (stripNeg a) b
  | e => e

def addStepE (tk : SExpr × TK) (sf : SExpr × SF) : Bool × Expr :=
  match tk.2.toks, isAddS tk.1 with
  | .op .minus :: _, false => (true, stripNeg sf.2.e)
  | _, _ => (false, sf.2.e)

/-- the first term keeps its text (sign included); the others are joined with their sign -/
def addJoinE (first : Expr) (rest : List (Bool × Expr)) : Expr :=
  rest.foldl (fun acc mt => .bin (if mt.1 then .sub else .add) acc mt.2) first

def mulNumE : List (SExpr × SF) → List Expr
  | [] => []
  | (f, sf) :: rest =>
    (match f with
      | .int z => if z.natAbs ≠ 1 then [Expr.num z.natAbs] else []
      | .rat p _ => if p.natAbs ≠ 1 then [Expr.num p.natAbs] else []
      | .pow _ e => if negCoeff e then [] else [sf.e]
      | _ => [sf.e]) ++ mulNumE rest

def mulDenE : List (SExpr × SF) → List Expr
  | [] => []
  | (f, sf) :: rest =>
    (match f with
      | .rat _ q => if q ≠ 1 then [Expr.num q] else []
      | .pow _ e => if negCoeff e then [sf.den] else []
      | _ => []) ++ mulDenE rest

/-- the numerator: a left-nested product, the sign on its first factor -/
def mulNumerE (minus : Bool) : List Expr → Expr
  | [] => .num 1
  | x :: rest => rest.foldl (fun acc y => .bin .mul acc y) (if minus then .un .neg x else x)

def mulBodyE (minus : Bool) (fs : List (SExpr × SF)) : Expr :=
  let a := mulNumE fs
  let n := mulNumerE minus (if a.isEmpty then [Expr.num 1] else a)
  match mulDenE fs with
  | [] => n
  | ds => .bin .div n (foldBin .mul (.num 1) ds)

def numE (minus : Bool) (n : Nat) : Expr := if minus then .un .neg (.num n) else .num n

def surfAlg : Alg SF where
  int z := { e := numE (z < 0) z.natAbs, neg := numE (0 < z) z.natAbs, den := .num 0 }
  rat p q :=
    { e := .bin .div (numE (p < 0) p.natAbs) (.num q),
      neg := .bin .div (numE (0 < p) p.natAbs) (.num q), den := .num 0 }
  sym s := { e := .sym s, neg := .num 0, den := .num 0 }
  add ts :=
    { e := match ts with
        | [] => .num 0
        | t :: rest =>
          addJoinE t.2.e (rest.map (fun sf => addStepE (sf.1, para tokAlg sf.1) sf)),
      neg := .num 0, den := .num 0 }
  mul fs :=
    let s := SExpr.mul (fs.map (·.1))
    { e := mulBodyE (negCoeff s) fs,
      neg := match fs with
        | [(c, _), (_, y)] => if isNegOne c then y.e else mulBodyE false fs
        | _ => mulBodyE false fs,
      den := .num 0 }
  pow _ tb e te :=
    { e :=
        if isHalf e then .un .sqrt tb.e
        else if isNegHalf e then .bin .div (.num 1) (.un .sqrt tb.e)
        else if isNegOne e then .bin .div (.num 1) tb.e else .bin .pow tb.e te.e,
      neg := .num 0,
      den :=
        if isNegOne e then tb.e
        else if isNegHalf e then .un .sqrt tb.e
        else .bin .pow tb.e te.neg }
  fn f args := { e := fnExpr f (args.map (·.2.e)), neg := .num 0, den := .num 0 }

/-- the exact tree `parseTokens (ppSympy s)` returns (for well-formed `s`) -/
def surf (s : SExpr) : Expr := (para surfAlg s).e

/-! ## Well-formedness: the canonical-form facts about SymPy trees that are used -/

def isMulS : SExpr → Bool
  | .mul _ => true
  | _ => false

def isNum : SExpr → Bool
  | .int _ => true
  | .rat _ _ => true
  | _ => false

def isRat : SExpr → Bool
  | .rat _ _ => true
  | _ => false

/-- the shape conditions at one node (children are checked by `swfAlg`) -/
def arityOk (f : SFn) (n : Nat) : Bool :=
  match f with
  | .floor | .ceiling | .abs | .sign => n == 1
  | .mod => n == 2
  | .max | .min => 1 ≤ n

/-- a literal exponent (an Integer or a non-integer Rational) -/
def litExp : SExpr → Bool
  | .int _ => true
  | .rat _ _ => true
  | _ => false

/-- a factor of a product that goes to the denominator has a literal exponent:
    `M * K**(-N)` prints as `M/K**N`, and the two differ under strict evaluation at `K = 0`
    when `-N` is positive (see `SWfX` / `denNZ` below for the symbolic exponents) -/
def denOk : SExpr → Bool
  | .pow _ e => !negCoeff e || litExp e
  | _ => true

def swfAlg : Alg Bool where
  int _ := true
  rat _ _ := true
  sym _ := true
  -- an Add has a term
  add ts := !ts.isEmpty && ts.all (·.2)
  -- numbers occur only as the first factor of a Mul; no factor is itself a Mul
  mul fs := fs.all (fun g => g.2 && denOk g.1 && !isMulS g.1) &&
    (match fs with
     | [] => false
     | _ :: rest => rest.all (fun g => !isNum g.1))
  -- `1 / (p/q)` is not left unevaluated
  pow b wb e we := wb && we && !(isNegOne e && isRat b)
  fn f args := args.all (·.2) && arityOk f args.length

def swf (s : SExpr) : Bool := para swfAlg s

def SWf (s : SExpr) : Prop := swf s = true

instance (s : SExpr) : Decidable (SWf s) := inferInstanceAs (Decidable (swf s = true))

/-! ## Symbolic negative exponents in a denominator (`M * K**(-N)` printed `M/K**N`)

`swfX` is `swf` without the literal-exponent condition `denOk`: the parser reads these texts too
(same theorem for the parse half).  The value is preserved exactly when no such denominator's base
is zero under the binding (`denNZ env`; `0**(positive)` is `0` but `1/0**(negative)` has no value):
for SymPy's own symbols (positive integers) a base is a symbol, a product or a power of them and
never zero; a base like `N - M` can be. -/

def swfXAlg : Alg Bool where
  int _ := true
  rat _ _ := true
  sym _ := true
  add ts := !ts.isEmpty && ts.all (·.2)
  mul fs := fs.all (fun g => g.2 && !isMulS g.1) &&
    (match fs with
     | [] => false
     | _ :: rest => rest.all (fun g => !isNum g.1))
  pow b wb e we := wb && we && !(isNegOne e && isRat b)
  fn f args := args.all (·.2) && arityOk f args.length

def swfX (s : SExpr) : Bool := para swfXAlg s

def SWfX (s : SExpr) : Prop := swfX s = true

instance (s : SExpr) : Decidable (SWfX s) := inferInstanceAs (Decidable (swfX s = true))

/-- one factor of a product: a denominator entry with a symbolic exponent has a base whose value
    is not zero (or has no value) under `env` -/
def denNZf (env : Env) : SExpr → Bool
  | .pow b e => !negCoeff e || litExp e || (eval env (sden b) != some 0)
  | _ => true

def denNZAlg (env : Env) : Alg Bool where
  int _ := true
  rat _ _ := true
  sym _ := true
  add ts := ts.all (·.2)
  mul fs := fs.all (fun g => g.2 && denNZf env g.1)
  pow _ wb _ we := wb && we
  fn _ args := args.all (·.2)

/-- the binding makes no denominator with a symbolic exponent vanish -/
def denNZ (env : Env) (s : SExpr) : Bool := para (denNZAlg env) s

end IrVerif.SymExpr

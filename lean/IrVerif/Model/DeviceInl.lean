import IrVerif.Model.Device
/-!
Model of the complete `InlinePass` on the object store of `Model/Device.lean` — property C19.

Transcribed from `src/onnx_ir/passes/common/inliner.py` (`InlinePass.call`, `_inline_calls_in`,
`_instantiate_call`, `_make_unique_name`), `src/onnx_ir/_cloner.py` (`Cloner.clone_node`, `clone_attr` for
GRAPH / GRAPHS attributes, `clone_graph`, `_clone_or_get_value`, `_remap_device_configurations`) with a value
map that may hold `None`, and `src/onnx_ir/_convenience/__init__.py` (`replace_nodes_and_values`,
`replace_all_uses_with`), `Value.replace_all_uses_with`, `Graph.insert_after`, `Graph.remove(safe=True)`.

The world of `Model/Device.lean` has neither call nodes nor graph outputs.  Both are kept in a side table
(`ITab`) that the pass reads and extends: `callee` says which nodes are calls to which model-local function
(named by the function's body graph), `outs` lists the outputs of graphs (function bodies, subgraphs, main graph).

What is transcribed: the loop over the nodes of a graph that also visits the nodes inserted for a call (a work
list), recursion into the subgraphs of nodes that are not calls, the instantiation of a call (formal -> actual
or `None`; every body node through `clone_node`, subgraphs of body nodes through `clone_graph`; the
`post_process` renaming of the outputs of every cloned node through `_make_unique_name`; a function output that
is not produced by a new node is forwarded through a new `Identity` node), `replace_nodes_and_values` (the copy
of the call outputs' shape and name onto the replacement values, the re-wiring of every use through
`replace_input_with` - which drops the specs of the user on the old value -, the replacement of the graph
outputs, the insertion of the new nodes and the safe removal of the call node), the loop over the functions
that were not inlined, and the deletion of the inlined functions.  `criteria` is `None`.

Not represented: opset imports (the generator gives every function the model's opsets), attribute parameters
and reference attributes (C05 covers them), node names, `requires` (no function is called `Identity`, the call
graph of the generated models is acyclic; a fuel bounds the work list instead), value names that are `None`
(the harness names every value, `""` for an anonymous one, so `old_value.name is not None` always holds in
`replace_nodes_and_values`).  A raise anywhere in the pass is `none`: the real pass is not atomic and the state
after a raise is not compared.

`subst` is ghost state: the values whose rank-dependent annotation checks are not claimed after the pass - the
actual arguments of inlined calls, the values that replace call outputs (their shape is overwritten with the
call output's), and clones of such values.  Core Lean only (linked into `irdriver`).
-/
namespace IrVerif.Device

/-- call nodes and graph outputs (not part of `World`) -/
structure ITab where
  /-- node -> body graph of the model-local function it calls (`node.op_identifier() in model.functions`) -/
  callee : List (NId × GId) := []
  /-- graph -> its outputs; newest entry first -/
  outs : List (GId × List VId) := []
deriving Repr, DecidableEq, Inhabited

def ITab.calleeOf (t : ITab) (n : NId) : Option GId :=
  (t.callee.find? (fun p => decide (p.1 = n))).map (·.2)

def ITab.outsOf (t : ITab) (g : GId) : List VId :=
  ((t.outs.find? (fun p => decide (p.1 = g))).map (·.2)).getD []

/-- the image of a value under a value map that may hold `None` (`None` also when there is no entry) -/
def oget (vm : OMap) (v : VId) : Option VId := (olookup vm v).getD none

/-- `_make_unique_name(name, callstack, used_names)` (`inliner.py` 31-49): `name`, or `name_i` for the least
    `i >= 2` that is free (one of `used.length + 1` candidates is free) -/
def uniqueName (name : String) (used : List String) : String :=
  if name ∉ used then name
  else match (List.range' 2 (used.length + 1)).find? (fun i => decide (name ++ "_" ++ toString i ∉ used)) with
    | some i => name ++ "_" ++ toString i
    | none => name

/-- the `post_process` callback `rename` of `_instantiate_call` on the outputs of a new node:
    `output.name = _make_unique_name(output.name or "val", ..., self._used_value_names)` -/
def renameOne (p : World × List String) (o : VId) : World × List String :=
  let w := p.1
  let nm := uniqueName (if (w.value o).name = "" then "val" else (w.value o).name) p.2
  ({ w with values := w.values.set o { (w.value o) with name := nm } }, nm :: p.2)

def renameOuts : World × List String → List VId → World × List String
  | p, [] => p
  | p, o :: rest => renameOuts (renameOne p o) rest

/-- state of the inliner's `Cloner` -/
structure ICl where
  w : World
  t : ITab
  vm : OMap
  used : List String
  subst : List VId
  newNodes : List NId := []
  newGraphs : List GId := []
deriving Repr

/-- `Cloner._clone_or_get_value` for a graph input / initializer of a subgraph of a body node: a value that
    is in the map must not be mapped to `None` (assertion), any other value is copied -/
def cloneOrGetO (st : ICl) (v : VId) : Option ICl :=
  match olookup st.vm v with
  | some (some _) => some st
  | some none => none
  | none =>
    let w := st.w
    some { st with w := { w with values := w.values ++ [w.value v] },
                   vm := (v, some w.values.length) :: st.vm,
                   subst := if v ∈ st.subst then st.subst ++ [w.values.length] else st.subst }

def cloneValsO : ICl → List VId → Option ICl
  | st, [] => some st
  | st, v :: rest =>
    match cloneOrGetO st v with
    | none => none
    | some st1 => cloneValsO st1 rest

/-- `clone_attr` over the GRAPH / GRAPHS attributes of a node; `rec` is `clone_graph` -/
def cloneSubgraphsO (rec : ICl → GId → Option (ICl × GId)) : ICl → List GId → Option (ICl × List GId)
  | st, [] => some (st, [])
  | st, g :: rest =>
    match rec st g with
    | none => none
    | some (st1, g') => (cloneSubgraphsO rec st1 rest).map (fun r => (r.1, g' :: r.2))

/-- the record of the node `clone_node` creates: inputs `ins`, fresh outputs, the annotations remapped through
    the node-local io map (`vm1` = the cloner's value map after the node's subgraphs and outputs, consulted only
    for a spec that targets a value outside the node, D340) -/
def clonedNodeO (nd : NodeS) (ins : List (Option VId)) (newOuts : List VId) (vm1 : OMap) (subs : List GId) : NodeS :=
  { inputs := ins, outputs := newOuts,
    dev := remapDevO (ioMapO nd.inputs ins nd.outputs newOuts ++ vm1) nd.dev, subgraphs := subs }

/-- the fresh outputs of a cloned node -/
def cnOuts (w : World) (nd : NodeS) : List VId := List.range' w.values.length nd.outputs.length

/-- the cloner's value map after the outputs of the node have been entered -/
def cnVm (w : World) (nd : NodeS) (vm : OMap) : OMap :=
  ((nd.outputs.zip (cnOuts w nd)).map (fun p => (p.1, some p.2))).reverse ++ vm

/-- the world after the new node and its outputs (copies of the source outputs) have been created -/
def cnWorld (w : World) (nd : NodeS) (ins : List (Option VId)) (vm : OMap) (subs : List GId) : World :=
  { w with values := w.values ++ nd.outputs.map w.value,
           nodes := w.nodes ++ [clonedNodeO nd ins (cnOuts w nd) (cnVm w nd vm) subs] }

/-- ghost: the clone of an output that is in `subst` is in `subst` -/
def cnSubst (w : World) (nd : NodeS) (S : List VId) : List VId :=
  S ++ ((nd.outputs.zip (cnOuts w nd)).filter (fun p => decide (p.1 ∈ S))).map (·.2)

/-- `Cloner.clone_node(node)` with the inliner's cloner (`_cloner.py` 170-290): inputs through the value map
    (an input without entry raises: outer-scope values are not allowed), the attributes (subgraphs), the new
    node and its outputs, the remap of the annotations, the D341 raise, then `post_process` (renaming of the
    outputs).  A clone of a call node is a call node. -/
def cloneNodeO (rec : ICl → GId → Option (ICl × GId)) (st : ICl) (n : NId) : Option (ICl × NId) :=
  let nd := st.w.node n
  match cloneInputsO st.vm nd.inputs with
  | none => none
  | some ins =>
    match cloneSubgraphsO rec st nd.subgraphs with
    | none => none
    | some (st1, subs) =>
      let w := st1.w
      if ∃ nc ∈ nd.dev, ∃ s ∈ nc.specs,
          olookup (ioMapO nd.inputs ins nd.outputs (cnOuts w nd) ++ cnVm w nd st1.vm) s.value = none then none else
      let r := renameOuts (cnWorld w nd ins st1.vm subs, st1.used) (cnOuts w nd)
      some ({ st1 with
              w := r.1, used := r.2, vm := cnVm w nd st1.vm,
              t := match st1.t.calleeOf n with
                | some f => { st1.t with callee := (w.nodes.length, f) :: st1.t.callee }
                | none => st1.t,
              subst := cnSubst w nd st1.subst,
              newNodes := st1.newNodes ++ [w.nodes.length] }, w.nodes.length)

def cloneNodesO (rec : ICl → GId → Option (ICl × GId)) : ICl → List NId → List NId → Option (ICl × List NId)
  | st, [], acc => some (st, acc.reverse)
  | st, n :: rest, acc =>
    match cloneNodeO rec st n with
    | none => none
    | some (st1, k) => cloneNodesO rec st1 rest (k :: acc)

/-- `Cloner._clone_graph`: inputs, initializers, nodes, outputs looked up (a missing entry raises; an output
    mapped to `None` is treated as a raise too: the generator does not produce it), the new `Graph` -/
def cloneGraphBodyO (rec : ICl → GId → Option (ICl × GId)) (st : ICl) (g : GId) : Option (ICl × GId) :=
  let gs := st.w.graph g
  match cloneValsO st (gs.inputs ++ gs.inits) with
  | none => none
  | some st0 =>
    let newIns := gs.inputs.filterMap (oget st0.vm)
    let newInits := gs.inits.filterMap (oget st0.vm)
    match cloneNodesO rec st0 gs.nodes [] with
    | none => none
    | some (st2, ns) =>
      match optAll ((st2.t.outsOf g).map (oget st2.vm)) with
      | none => none
      | some outs' =>
        let g' := st2.w.graphs.length
        some ({ st2 with
                w := { st2.w with graphs := st2.w.graphs ++ [{ inputs := newIns, nodes := ns, inits := newInits }] },
                t := { st2.t with outs := (g', outs') :: st2.t.outs },
                newGraphs := st2.newGraphs ++ [g'] }, g')

def cloneGraphOF : Nat → ICl → GId → Option (ICl × GId)
  | 0, _, _ => none
  | f + 1, st, g => cloneGraphBodyO (cloneGraphOF f) st g

/-- `value_map[function.inputs[i]] = node.inputs[i]`, `None` for the inputs the call does not pass -/
def zipPadO : List VId → List (Option VId) → OMap
  | [], _ => []
  | v :: vs, [] => (v, none) :: zipPadO vs []
  | v :: vs, c :: cs => (v, c) :: zipPadO vs cs

/-- state of the pass -/
structure IState where
  w : World
  t : ITab
  /-- `_used_value_names` -/
  used : List String := []
  /-- `_inlined_functions` (body graphs) -/
  inlined : List GId := []
  /-- ghost: see the header -/
  subst : List VId := []
deriving Repr

/-- result of forwarding the function outputs -/
structure Fwd where
  w : World
  used : List String
  produced : List VId
  /-- the Identity nodes created, in order -/
  nodes : List NId := []
  outvals : List VId := []

/-- `inliner.py` 267-284: the value bound to a function output; when it is not produced by one of the new nodes
    (a function input the function returns, i.e. a value of the caller) it is forwarded through a new `Identity`
    node whose output takes the function output's name and the value's shape and is renamed like every new
    output.  `none`: the output has no entry in the value map (KeyError) or is bound to `None` (the pass raises
    in `replace_nodes_and_values`). -/
def fwdOutsO (vm : OMap) : Fwd → List VId → Option Fwd
  | st, [] => some st
  | st, o :: rest =>
    match oget vm o with
    | none => none
    | some val =>
      if val ∈ st.produced then fwdOutsO vm { st with outvals := st.outvals ++ [val] } rest
      else
        let w := st.w
        let x := w.values.length
        let k := w.nodes.length
        let w1 : World := { w with
          values := w.values ++ [({ name := (w.value o).name, shape := (w.value val).shape } : ValueS)],
          nodes := w.nodes ++ [{ inputs := [some val], outputs := [x], dev := [], subgraphs := [] }] }
        let r := renameOuts (w1, st.used) [x]
        fwdOutsO vm { w := r.1, used := r.2, produced := x :: st.produced, nodes := st.nodes ++ [k],
                      outvals := st.outvals ++ [x] } rest

/-- `replace_nodes_and_values`, first loop: shape and name of the old value onto the new one
    (`new.shape = old.shape if old.shape is not None else new.shape`; names are never `None` here) -/
def copyOne (w : World) (old new : VId) : World :=
  let sh : Option (List Dim) := match (w.value old).shape with
    | some x => some x
    | none => (w.value new).shape
  { w with values := w.values.set new ({ name := (w.value old).name, shape := sh } : ValueS) }

def copyInfo : World → List (VId × VId) → World
  | w, [] => w
  | w, (old, new) :: rest => copyInfo (copyOne w old new) rest

/-- every use of `old` in one node replaced through `replace_input_with` (drop on detach) -/
def rauwNode (old new : VId) (nd : NodeS) : NodeS :=
  (List.range' 0 nd.inputs.length).foldl
    (fun a i => if a.inputs.getD i none = some old then replaceInputNode a i (some new) else a) nd

/-- `old.replace_all_uses_with(new)`: the users are the nodes of the heap that have `old` as an input -/
def rauwAll (w : World) : List (VId × VId) → World
  | [] => w
  | (old, new) :: rest => rauwAll { w with nodes := w.nodes.map (rauwNode old new) } rest

def substOuts (pairs : List (VId × VId)) (outs : List VId) : List VId :=
  pairs.foldl (fun acc p => acc.map (fun o => if o = p.1 then p.2 else o)) outs

/-- one inlined call: `_instantiate_call(node, ...)` and `replace_nodes_and_values(graph, node, [node], nodes,
    node.outputs, values)`; returns the new state and the top-level nodes inserted after the call node -/
def inlineCall (fuel : Nat) (st : IState) (g : GId) (c : NId) (f : GId) : Option (IState × List NId) :=
  let nd := st.w.node c
  let fs := st.w.graph f
  if nd.subgraphs ≠ [] then none                       -- graph attribute parameters are not supported
  else if nd.inputs.length > fs.inputs.length then none
  else
    let cl0 : ICl := { w := st.w, t := st.t, vm := (zipPadO fs.inputs nd.inputs).reverse, used := st.used,
                       subst := st.subst ++ nd.inputs.filterMap id }
    match cloneNodesO (cloneGraphOF fuel) cl0 fs.nodes [] with
    | none => none
    | some (cl, tops) =>
      match fwdOutsO cl.vm { w := cl.w, used := cl.used,
                             produced := (tops.map (fun k => (cl.w.node k).outputs)).flatten } (cl.t.outsOf f) with
      | none => none
      | some fw =>
        let pairs := nd.outputs.zip fw.outvals
        let w1 := copyInfo fw.w pairs
        -- replace_all_uses_with: the numbers of values and replacements must match
        if nd.outputs.length ≠ fw.outvals.length then none
        else
          let w2 := rauwAll w1 pairs
          let newTops := tops ++ fw.nodes
          let created := cl.newNodes ++ fw.nodes
          -- insert_after(call, new nodes); the new nodes and graphs are enumerated by the models owning `g`
          let gs := w2.graph g
          let nodes' : List NId := gs.nodes.flatMap (fun k => if k = c then c :: newTops else [k])
          let w2g : World := w2.setGraph g { gs with nodes := nodes' }
          let w3 : World := { w2g with
            models := w2g.models.map (fun ms =>
              if g ∈ ms.graphs then { ms with nodes := ms.nodes ++ created, graphs := ms.graphs ++ cl.newGraphs }
              else ms) }
          -- graph.remove([call], safe=True)
          match removeNode w3 g c true with
          | (_, .raised) => none
          | (w4, .ok) =>
            some ({ w := w4,
                    t := { cl.t with outs := (g, substOuts pairs (cl.t.outsOf g)) :: cl.t.outs },
                    used := fw.used,
                    inlined := if f ∈ st.inlined then st.inlined else st.inlined ++ [f],
                    subst := cl.subst ++ fw.outvals }, newTops)

/-- the names `_inline_calls_in` collects before its loop: graph inputs, initializers, node outputs -/
def usedOf (w : World) (g : GId) : List String :=
  ((w.graph g).inputs.map (fun v => (w.value v).name)) ++ ((w.graph g).inits.map (fun v => (w.value v).name)) ++
  (((w.graph g).nodes.map (fun n => (w.node n).outputs.map (fun v => (w.value v).name))).flatten)

def inlSubs (rec : IState → GId → Option IState) : IState → List GId → Option IState
  | st, [] => some st
  | st, g :: rest =>
    match rec st g with
    | none => none
    | some st1 => inlSubs rec st1 rest

/-- the loop `for node in graph` of `_inline_calls_in`: the linked list also iterates over the nodes inserted
    after the current one, so the nodes cloned for a call are visited next; `k` bounds the number of visits -/
def inlNodes (rec : IState → GId → Option IState) (fuel : Nat) (g : GId) : Nat → IState → List NId → Option IState
  | 0, _, _ => none
  | _ + 1, st, [] => some st
  | k + 1, st, n :: rest =>
    match st.t.calleeOf n with
    | some f =>
      match inlineCall fuel st g n f with
      | none => none
      | some (st1, tops) => inlNodes rec fuel g k st1 (tops ++ rest)
    | none =>
      match inlSubs rec st (st.w.node n).subgraphs with
      | none => none
      | some st1 => inlNodes rec fuel g k st1 rest

/-- `_inline_calls_in(graph)` -/
def inlGraphF (fuel : Nat) : Nat → IState → GId → Option IState
  | 0, _, _ => none
  | d + 1, st, g =>
    inlNodes (inlGraphF fuel d) fuel g fuel { st with used := usedOf st.w g ++ st.used } (st.w.graph g).nodes

/-- the loop over `model.functions.items()`: a function that was not inlined has the calls in its body inlined -/
def inlFuncs (fuel : Nat) : IState → List GId → Option IState
  | st, [] => some st
  | st, f :: rest =>
    if f ∈ st.inlined then inlFuncs fuel st rest
    else
      match inlGraphF fuel fuel st f with
      | none => none
      | some st1 => inlFuncs fuel st1 rest

/-- nodes and graphs under a root graph -/
def graphTree (w : World) (g : GId) : List NId × List GId :=
  (w.graph g).nodes.foldl (fun a k =>
    let r := subtreeF (w.nodes.length + 1) w k
    (a.1 ++ k :: r.1, a.2 ++ r.2)) ([], [g])

/-- `del model.functions[func_id]` for every inlined function -/
def dropFuncs (w : World) (m : MId) (inl : List GId) : World :=
  let ms := w.model m
  let dead := ms.funcs.filter (fun f => decide (f ∈ inl))
  let deadNodes := (dead.map (fun f => (graphTree w f).1)).flatten
  let deadGraphs := (dead.map (fun f => (graphTree w f).2)).flatten
  w.setModel m { ms with funcs := ms.funcs.filter (fun f => decide (f ∉ inl)),
                         nodes := ms.nodes.filter (fun k => decide (k ∉ deadNodes)),
                         graphs := ms.graphs.filter (fun k => decide (k ∉ deadGraphs)) }

structure IOut where
  w : World
  t : ITab
  subst : List VId
deriving Repr

/-- `InlinePass()(model)` with `criteria=None`; `none` = raises (or the fuel ran out) -/
def inlinePass (fuel : Nat) (w : World) (m : MId) (t : ITab) : Option IOut :=
  let ms := w.model m
  match inlGraphF fuel fuel { w := w, t := t } ms.graph with
  | none => none
  | some st1 =>
    match inlFuncs fuel st1 ms.funcs with
    | none => none
    | some st2 => some { w := dropFuncs st2.w m st2.inlined, t := st2.t, subst := st2.subst }

/-! ### the weaker invariant that holds after inlining -/

/-- the rank-independent part of `NodeOK` for one node, relative to the configurations `C` registered on the
    model and the configuration heap: one record per configuration, every record refers to a registered
    configuration, stages are non-negative, every spec targets an input or output of the node, has at least one
    shard per axis and device indices inside its configuration -/
def NodeWeak (C : List CId) (cfgs : List CfgS) (nd : NodeS) : Prop :=
  (nd.dev.map (·.cfg)).Nodup ∧
  ∀ nc ∈ nd.dev,
    nc.cfg ∈ C ∧ (∀ st, nc.stage = some st → 0 ≤ st) ∧
    ∀ s ∈ nc.specs, InIO nd s.value ∧ (∀ d ∈ s.dims, 1 ≤ d.numShards) ∧
      (∀ d ∈ s.device, 0 ≤ d ∧ d < (cfgs.getD nc.cfg {}).numDevices)

instance (C : List CId) (cfgs : List CfgS) (nd : NodeS) : Decidable (NodeWeak C cfgs nd) := by
  unfold NodeWeak
  have : ∀ o : Option Int, Decidable (∀ st, o = some st → 0 ≤ st) := by
    intro o
    cases o with
    | none => exact isTrue (by simp)
    | some x => exact decidable_of_iff (0 ≤ x) (by simp)
  infer_instance

/-- the axis clauses of `SpecWF`: in range for a known rank, not repeated after normalisation -/
def AxesOK (w : World) (s : Spec) : Prop :=
  (∀ d ∈ s.dims, ¬ AxisBad (rankOf (w.value s.value)) d.axis) ∧
  (s.dims.map (fun d => normAxis (rankOf (w.value s.value)) d.axis)).Nodup

instance (w : World) (s : Spec) : Decidable (AxesOK w s) := by unfold AxesOK; infer_instance

/-- **WeakOK**: `DevOK` minus (a) the axis clauses for the specs whose target is in `S` and (b) "one spec per
    value" (two formal parameters may be bound to the same argument) -/
def WeakOK (w : World) (m : MId) (S : List VId) : Prop :=
  (∀ nd ∈ w.nodes, NodeWeak (w.model m).cfgs w.cfgs nd) ∧
  (∀ nd ∈ w.nodes, ∀ nc ∈ nd.dev, ∀ s ∈ nc.specs, s.value ∉ S → AxesOK w s)

instance (w : World) (m : MId) (S : List VId) : Decidable (WeakOK w m S) := by unfold WeakOK; infer_instance

/-- hypothesis of `C19_inline_pass`: every node of the heap is annotated with configurations of model `m` only
    (a world with one model and no stale detached nodes) -/
def HeapReg (w : World) (m : MId) : Prop :=
  ∀ nd ∈ w.nodes, ∀ nc ∈ nd.dev, nc.cfg ∈ (w.model m).cfgs

instance (w : World) (m : MId) : Decidable (HeapReg w m) := by unfold HeapReg; infer_instance

/-- the graph inputs and initializers of every graph of the heap exist (hypothesis of the axis half of
    `C19_inline_pass`; `DevOK` says the same of the inputs / outputs of nodes) -/
def GraphIds (w : World) : Prop :=
  ∀ gs ∈ w.graphs, ∀ v ∈ gs.inputs ++ gs.inits, v < w.values.length

instance (w : World) : Decidable (GraphIds w) := by unfold GraphIds; infer_instance

end IrVerif.Device

/-
`Graph.sort` (src/onnx_ir/_core.py:4089-4197) on the FULL world: `Model/SortState.lean`'s world
(pointer-level node containers, attribute graphs, input producers) plus what the checking phase and the
naming half of the re-linking read and write:

  * per node   `node.graph`, `node.name`, `node.op_type`, `node.outputs`            (`NodeR`)
  * per value  `value.name`, the backing `const_value` (whether its `name` can be assigned, and its
               name), `value.graph` (the owner whose authority learns a new name)     (`ValR`)
  * per graph  the name authority: both counters and both name sets                  (`AuthR`)

`sortF` does what the code does, in its order:

  1. `nodes = list(RecursiveGraphIterator(self))`                         (`unfoldG`; `RecursionError`)
  2. `sorted_nodes_by_graph = {graph: [] for graph in {node.graph for node in nodes if node.graph is not None}}`
     -- the keys and the buckets come from `node.graph`, NOT from the container that lists the node
  3. steps 1-3 (`kahn`); `assert current_node.graph is not None` for every popped node (`AssertionError`)
  4. the cycle test (`ValueError`)                                                  (_core.py:4184-4185)
  5. `graph._check_node_can_be_added(node)` for every node of every bucket          (_core.py:4190-4192,
     fix D89): the node belongs to no other graph and every unnamed output can be named (the probe
     `tensor.name = tensor.name` of `_check_value_can_be_named`); a refusal raises before any write
  6. per bucket `graph.extend(reversed(sorted_nodes))` (_core.py:3981-3997): all checks again, then per node
     `_set_node_graph_to_self_and_assign_names` (check once more, `register_or_name_node`,
     `register_or_name_value` per output, `node.graph = self`), then `self._nodes.extend(nodes)` -- the
     container write.  A check or a name setter that fails HERE would leave earlier writes behind: outcome
     `late`.  `C12_full_no_late` proves it never happens.

Only core Lean is imported (linked into `irdriver`).
-/
import IrVerif.Model.SortState
import IrVerif.Model.Kernel

namespace IrVerif.Sort
open IrVerif.Kernel (uniqueLoop valName nodeName addName)

/-- what `Graph.sort` reads / writes of a node besides its inputs and attributes -/
structure NodeR where
  graph : Option Nat := none
  name : Option String := none
  opType : String := ""
  outputs : List Nat := []
deriving Repr, DecidableEq, Inhabited

/-- of a value: its name, its `const_value` as `(name cannot be assigned, tensor name)`, `value.graph` -/
structure ValR where
  name : Option String := none
  const : Option (Bool × Option String) := none
  owner : Option Nat := none
deriving Repr, DecidableEq, Inhabited

/-- `NameAuthority` (_name_authority.py:33-37); the sets as duplicate-free lists -/
structure AuthR where
  vCtr : Nat := 0
  nCtr : Nat := 0
  vNames : List String := []
  nNames : List String := []
deriving Repr, DecidableEq, Inhabited

structure FWorld where
  sw : SWorld
  nodes : Nat → NodeR
  vals : Nat → ValR
  auths : Nat → AuthR

def FWorld.setNode (w : FWorld) (n : Nat) (r : NodeR) : FWorld :=
  { w with nodes := fun m => if m = n then r else w.nodes m }
def FWorld.setVal (w : FWorld) (v : Nat) (r : ValR) : FWorld :=
  { w with vals := fun m => if m = v then r else w.vals m }
def FWorld.setAuth (w : FWorld) (g : Nat) (r : AuthR) : FWorld :=
  { w with auths := fun m => if m = g then r else w.auths m }

/-- the backing tensor refuses `tensor.name = ...` -/
def ValR.locked (r : ValR) : Bool :=
  match r.const with
  | some (l, _) => l
  | none => false

/-- `_check_value_can_be_named` (_core.py:3592-3602) passes -/
def valNamable (w : FWorld) (v : Nat) : Bool := !((w.vals v).name.isNone && (w.vals v).locked)

/-- `graph._check_node_can_be_added(node)` (_core.py:3826-3833) passes for graph `k` -/
def nodeOK (w : FWorld) (k n : Nat) : Bool :=
  ((w.nodes n).graph.isNone || (w.nodes n).graph == some k) && (w.nodes n).outputs.all (valNamable w)

/-- `NameAuthority.register_node_name` / `register_value_name` on the authority of graph `k` -/
def noteNodeName (w : FWorld) (k : Nat) (s : String) : FWorld :=
  w.setAuth k { w.auths k with nNames := addName (w.auths k).nNames s }
def noteValName (w : FWorld) (k : Nat) (s : String) : FWorld :=
  w.setAuth k { w.auths k with vNames := addName (w.auths k).vNames s }

/-- the authority of graph `ko` (if any) learns a node / value name -/
def noteNodeNameO (w : FWorld) (ko : Option Nat) (s : String) : FWorld :=
  match ko with
  | some k' => noteNodeName w k' s
  | none => w
def noteValNameO (w : FWorld) (ko : Option Nat) (s : String) : FWorld :=
  match ko with
  | some k' => noteValName w k' s
  | none => w

/-- `register_or_name_node` of graph `k` on a node without a name: `_unique_node_name` advances the counter,
    the `Node.name` setter (_core.py:2373-2378) tells the authority of `node.graph`, then the name is added to
    the set of `k` -/
def freshNode (w : FWorld) (k n : Nat) : FWorld :=
  let a := w.auths k
  let sc := uniqueLoop (nodeName (w.nodes n).opType) a.nNames (a.nNames.length + 1) a.nCtr
  noteNodeName (noteNodeNameO ((w.setAuth k { a with nCtr := sc.2 }).setNode n
    { w.nodes n with name := some sc.1 }) (w.nodes n).graph sc.1) k sc.1

/-- `self._name_authority.register_or_name_node(node)` of graph `k` (_name_authority.py:75-82) -/
def regNode (w : FWorld) (k n : Nat) : FWorld :=
  match (w.nodes n).name with
  | some s => noteNodeName w k s
  | none => freshNode w k n

/-- a world together with "a check or a setter raised after the checking phase" -/
abbrev FR := FWorld × Bool

/-- run `f` unless an earlier step already raised -/
def seqF (r : FR) (f : FWorld → FR) : FR := if r.2 then r else f r.1

/-- `register_or_name_value` of graph `k` on a value without a name whose tensor accepts one: the counter is
    advanced, the `Value.name` setter (_core.py:3309-3351) renames the backing tensor, then the value, then
    tells the owner's authority; finally the name is added to the set of `k` -/
def freshVal (w : FWorld) (k v : Nat) : FWorld :=
  let a := w.auths k
  let sc := uniqueLoop valName a.vNames (a.vNames.length + 1) a.vCtr
  noteValName (noteValNameO ((w.setAuth k { a with vCtr := sc.2 }).setVal v
    { w.vals v with name := some sc.1, const := (w.vals v).const.map (fun c => (c.1, some sc.1)) })
    (w.vals v).owner sc.1) k sc.1

/-- the same when the tensor refuses (the setter raises on its first statement; the counter was advanced) -/
def burnVal (w : FWorld) (k : Nat) : FWorld :=
  let a := w.auths k
  w.setAuth k { a with vCtr := (uniqueLoop valName a.vNames (a.vNames.length + 1) a.vCtr).2 }

/-- `self._name_authority.register_or_name_value(value)` of graph `k` (_name_authority.py:65-73) -/
def regVal (w : FWorld) (k v : Nat) : FR :=
  match (w.vals v).name with
  | some s => (noteValName w k s, false)
  | none => if (w.vals v).locked then (burnVal w k, true) else (freshVal w k v, false)

/-- `_set_node_graph_to_self_and_assign_names(node)` (_core.py:3835-3843) -/
def nameNode (w : FWorld) (k n : Nat) : FR :=
  if !nodeOK w k n then (w, true)
  else
    let r := (w.nodes n).outputs.foldl (fun r o => seqF r (fun w => regVal w k o)) (regNode w k n, false)
    seqF r (fun w => (w.setNode n { w.nodes n with graph := some k }, false))

/-- `Graph.extend(nodes)` (_core.py:3981-3997) of graph `k`: the naming half (everything before the
    container write) -/
def nameNodes (w : FWorld) (k : Nat) (xs : List Nat) : FR :=
  if !xs.all (nodeOK w k) then (w, true)
  else xs.foldl (fun r n => seqF r (fun w => nameNode w k n)) (w, false)

/-- `Graph.extend(nodes)` of graph `k`, ending with `self._nodes.extend(nodes)` on the container -/
def extendF (w : FWorld) (p : Nat × List Nat) : FR :=
  seqF (nameNodes w p.1 p.2) (fun w => ({ w with sw := applyWrite w.sw p }, false))

/-- state of step 6: the world, whether something raised, the container writes performed so far -/
structure WSt where
  world : FWorld
  late : Bool
  trace : List (Nat × List Nat)

def writeStep (s : WSt) (p : Nat × List Nat) : WSt :=
  if s.late then s
  else
    let r := extendF s.world p
    ⟨r.1, r.2, if r.2 then s.trace else s.trace ++ [p]⟩

/-- step 6 -/
def writeAll (w : FWorld) (ws : List (Nat × List Nat)) : WSt := ws.foldl writeStep ⟨w, false, []⟩

inductive FOut where
  | ok
  /-- the cycle test (also: a shared Graph object) -/
  | valueError
  | recursionError
  /-- `assert current_node.graph is not None` -/
  | assertionError
  /-- the checking phase of fix D89 refused a node: `ValueError` (belongs to another graph) or whatever the
      tensor raises when it is asked to take its own name (`AttributeError` for a read-only property) -/
  | refused
  /-- a check or a setter raised after the first write (never: `C12_full_no_late`) -/
  | late
deriving Repr, DecidableEq

structure FRes where
  out : FOut
  world : FWorld
  trace : List (Nat × List Nat)

/-- ids of the popped nodes, most recent first -/
def poppedIds (u : List Ent) (out : List Nat) : List Nat := (out.filterMap (fun i => u[i]?)).map Ent.id

/-- `reversed(sorted_nodes_by_graph[graph k])`: the popped nodes whose `node.graph` is `k` -/
def bucketF (w : FWorld) (u : List Ent) (out : List Nat) (k : Nat) : List Nat :=
  (poppedIds u out).filter (fun i => (w.nodes i).graph == some k)

/-- keys of `sorted_nodes_by_graph`: `{node.graph for node in nodes if node.graph is not None}` -/
def keysF (w : FWorld) (u : List Ent) : List Nat := firsts (u.filterMap (fun e => (w.nodes e.id).graph))

/-- `Graph.sort()` on graph `g`, the buckets visited in the order `order` (an arrangement of `keysF`) -/
def sortF (w : FWorld) (order : List Nat) (g : Nat) : FRes :=
  match unfoldG w.sw w.sw.fuel g with
  | none => ⟨.recursionError, w, []⟩
  | some t =>
    let u := nodesOf t
    let out := kahn u.length (predsAt u)
    if sharedGraph u then ⟨.valueError, w, []⟩
    else if (poppedIds u out).any (fun i => (w.nodes i).graph.isNone) then ⟨.assertionError, w, []⟩
    else if out.length != u.length then ⟨.valueError, w, []⟩
    else
      let ws := order.map (fun k => (k, bucketF w u out k))
      if ws.any (fun p => !p.2.all (nodeOK w p.1)) then ⟨.refused, w, []⟩
      else
        let r := writeAll w ws
        ⟨if r.late then .late else .ok, r.world, r.trace⟩

def defaultOrderF (w : FWorld) (g : Nat) : List Nat :=
  match unfoldG w.sw w.sw.fuel g with
  | none => []
  | some t => keysF w (nodesOf t)

/-- `node.graph` names the graph whose container lists the node (C01's ownership consistency) -/
def Consistent (w : FWorld) (u : List Ent) : Prop := ∀ e ∈ u, (w.nodes e.id).graph = some e.gid

instance (w : FWorld) (u : List Ent) : Decidable (Consistent w u) := by unfold Consistent; infer_instance

/-! ### `TopologicalSortPass.call` (passes/common/topological_sort.py:22-52) on the stateful world

`graph_likes` = for the main graph and every function: the graph, then `graph.subgraphs()`;
`original_orders = [list(g) for g in graph_likes]`; the sorts in sequence; `except ValueError:` every graph-like
is re-extended with its recorded order (`Graph.extend`: checks and naming included), then the error is re-raised.
Any other exception propagates WITHOUT the restore. -/

/-- first occurrences of the graphs nested below a node list (`Graph.subgraphs()`: `seen_graphs`) -/
def subgraphIds (t : MGraph) : List Nat := (firsts ((subgraphsNs t.2).map Prod.fst)).filter (fun k => k != t.1)

/-- `graph_likes` for the roots `gs`; `none`: some traversal does not finish (`RecursionError`) -/
def graphLikes (w : SWorld) : List Nat → Option (List Nat)
  | [] => some []
  | g :: gs =>
    match unfoldG w w.fuel g, graphLikes w gs with
    | some t, some rest => some (g :: subgraphIds t ++ rest)
    | _, _ => none

/-- the sorts of the container-level pass in sequence; stops at the first sort that does not end normally -/
def passSortsW (w : SWorld) : List (Nat × List Nat) → SRes
  | [] => ⟨.ok, w, []⟩
  | (g, ord) :: rest =>
    let r := sortW w ord g
    if r.out = .ok then
      let r2 := passSortsW r.world rest
      ⟨r2.out, r2.world, r.trace ++ r2.trace⟩
    else ⟨r.out, r.world, r.trace⟩

/-- the pass on containers only (what `C12_state_pass_atomic` is about): `roots` = (graph, re-link order) for
    the main graph and every function, `gls` = `graph_likes` -/
def passW (w : SWorld) (roots : List (Nat × List Nat)) (gls : List Nat) : SRes :=
  let orig := gls.map (fun k => (k, w.order k))
  let r := passSortsW w roots
  if r.out = .valueError then ⟨.valueError, applyWrites r.world orig, r.trace ++ orig⟩ else r

/-- the sorts of the full pass in sequence -/
def passSortsF (w : FWorld) : List (Nat × List Nat) → FRes
  | [] => ⟨.ok, w, []⟩
  | (g, ord) :: rest =>
    let r := sortF w ord g
    if r.out = .ok then
      let r2 := passSortsF r.world rest
      ⟨r2.out, r2.world, r.trace ++ r2.trace⟩
    else ⟨r.out, r.world, r.trace⟩

/-- the full pass: the restore step is `Graph.extend` with its checks and naming; a refusal there
    (`refused`: raised by the checking loop of that `extend`, earlier graph-likes already restored) ends it -/
def passF (w : FWorld) (roots : List (Nat × List Nat)) : FRes :=
  match graphLikes w.sw (roots.map Prod.fst) with
  | none => ⟨.recursionError, w, []⟩
  | some gls =>
    let orig := gls.map (fun k => (k, w.sw.order k))
    let r := passSortsF w roots
    if r.out = .valueError then
      let s := writeAll r.world orig
      ⟨if s.late then .refused else .valueError, s.world, r.trace ++ s.trace⟩
    else r

/-- executable form of the hypothesis of `C12_state_pass_atomic` (`PassHyp` in `Props/C12.lean`): every sort of
    the pass that succeeds is a sort of a tree with distinct node ids and distinct graph ids, with an
    arrangement of the keys as re-link order -/
def passHypB : SWorld → List (Nat × List Nat) → Bool
  | _, [] => true
  | w, p :: rest =>
    let r := sortW w p.2 p.1
    if r.out = .ok then
      (match unfoldG w w.fuel p.1 with
       | none => false
       | some t => decide (((nodesOf t).map Ent.id).Nodup) && decide (((allGraphs t).map Prod.fst).Nodup) &&
           p.2.isPerm (sortKeys (nodesOf t))) && passHypB r.world rest
    else true

/-! ### the pass after the proposed fix D392 (`proposed_fixes/D392.diff`)

```
        except ValueError:
            for original_nodes, graph_like in zip(original_orders, graph_likes):
                if any(a is not b for a, b in zip(original_nodes, graph_like)):
                    graph_like.extend(original_nodes)
            raise
```
Only graph-likes whose order changed are re-extended; the test reads the graph-like as it is when the loop gets to it.
The harness probes the real pass and has the driver run the matching transcription (`passF` / `passFD`). -/

/-- `any(a is not b for a, b in zip(original_nodes, graph_like))` -/
def changedB (a b : List Nat) : Bool := (a.zip b).any (fun p => p.1 != p.2)

/-- one turn of the restore loop of D392 on containers: `(world, writes so far)` -/
def restoreStepWD (w0 : SWorld) (s : SWorld × List (Nat × List Nat)) (k : Nat) : SWorld × List (Nat × List Nat) :=
  if changedB (w0.order k) (s.1.order k) then (applyWrite s.1 (k, w0.order k), s.2 ++ [(k, w0.order k)]) else s

/-- `passW` after D392.diff -/
def passWD (w : SWorld) (roots : List (Nat × List Nat)) (gls : List Nat) : SRes :=
  let r := passSortsW w roots
  if r.out = .valueError then
    let s := gls.foldl (restoreStepWD w) (r.world, [])
    ⟨.valueError, s.1, r.trace ++ s.2⟩
  else r

/-- one turn of the restore loop of D392 on the full world (`Graph.extend` with checks and naming) -/
def restoreStepFD (w0 : SWorld) (s : WSt) (k : Nat) : WSt :=
  if s.late then s
  else if changedB (w0.order k) (s.world.sw.order k) then writeStep s (k, w0.order k) else s

/-- `passF` after D392.diff -/
def passFD (w : FWorld) (roots : List (Nat × List Nat)) : FRes :=
  match graphLikes w.sw (roots.map Prod.fst) with
  | none => ⟨.recursionError, w, []⟩
  | some gls =>
    let r := passSortsF w roots
    if r.out = .valueError then
      let s := gls.foldl (restoreStepFD w.sw) ⟨r.world, false, []⟩
      ⟨if s.late then .refused else .valueError, s.world, r.trace ++ s.trace⟩
    else r

/-- executable hypothesis of `C12_passF_refines_passW`: at every sort the pass performs, `node.graph` names the graph
    whose container lists the node (`Consistent`) -/
def passConsB : FWorld → List (Nat × List Nat) → Bool
  | _, [] => true
  | w, p :: rest =>
    (match unfoldG w.sw w.sw.fuel p.1 with
     | none => true
     | some t => decide (Consistent w (nodesOf t))) &&
    (if (sortF w p.2 p.1).out = .ok then passConsB (sortF w p.2 p.1).world rest else true)

/-- executable hypothesis of `C12_pass_success_sorted`: no LATER sort of the pass writes the container of a graph of
    the tree this sort orders (the graph-likes of a model are disjoint trees) -/
def passDisjB : SWorld → List (Nat × List Nat) → Bool
  | _, [] => true
  | w, p :: rest =>
    (match unfoldG w w.fuel p.1 with
     | none => true
     | some t => (passSortsW (sortW w p.2 p.1).world rest).trace.all
         (fun q => !(((allGraphs t).map Prod.fst).contains q.1))) &&
    passDisjB (sortW w p.2 p.1).world rest

end IrVerif.Sort

/-
Model of `src/onnx_ir/_type_casting.py` (pack_4bitx2 / unpack_4bitx2 / pack_2bitx4 /
unpack_2bitx4) and of the byte-count rule `nbytes = ceil(size * bitwidth / 8)`.

Elements are bit patterns (`Nat`); a `uint8` array is a `List Nat`.  Only core Lean is
imported so that the model can be linked into the `irdriver` executable.
-/
namespace IrVerif.Pack

/-- `TensorBase.nbytes`: `math.ceil(itemsize_bits * size / 8)`. -/
def nbytes (size bw : Nat) : Nat := (size * bw + 7) / 8

/-- `ndarray.resize(n, refcheck=False)` on a flat array: truncate or zero-fill. -/
def resize (xs : List Nat) (n : Nat) : List Nat := (xs ++ List.replicate n 0).take n

/-- `pack_4bitx2`: pad to even length with 0, mask to 4 bits, odd positions `<<= 4`, `|`. -/
def pack4 : List Nat → List Nat
  | [] => []
  | [a] => [a % 16 + (0 % 16) * 16]
  | a :: b :: rest => (a % 16 + (b % 16) * 16) :: pack4 rest

/-- the interleaved low/high nibbles of `unpack_4bitx2` before the padding rule -/
def unpack4raw : List Nat → List Nat
  | [] => []
  | b :: bs => (b % 16) :: ((b % 256) / 16) :: unpack4raw bs

/-- `unpack_4bitx2(data, dims)` flattened; `n = prod(dims)`. -/
def unpack4 (bs : List Nat) (n : Nat) : List Nat :=
  let r := unpack4raw bs
  let r := if r.length = n + 1 then r.dropLast else r
  resize r n

/-- `pack_2bitx4`: pad to a multiple of 4 with 0, mask to 2 bits, shift by 0/2/4/6, `|`. -/
def pack2 : List Nat → List Nat
  | [] => []
  | [a] => [a % 4]
  | [a, b] => [a % 4 + (b % 4) * 4]
  | [a, b, c] => [a % 4 + (b % 4) * 4 + (c % 4) * 16]
  | a :: b :: c :: d :: rest => (a % 4 + (b % 4) * 4 + (c % 4) * 16 + (d % 4) * 64) :: pack2 rest

def unpack2raw : List Nat → List Nat
  | [] => []
  | b :: bs => (b % 4) :: ((b % 16) / 4) :: ((b % 64) / 16) :: ((b % 256) / 64) :: unpack2raw bs

/-- `unpack_2bitx4(data, dims)` flattened. -/
def unpack2 (bs : List Nat) (n : Nat) : List Nat :=
  let r := unpack2raw bs
  let r := if r.length > n then r.take n else r
  resize r n

/-- little-endian bytes of a `w`-byte unsigned integer bit pattern -/
def leBytes : Nat → Nat → List Nat
  | 0, _ => []
  | w + 1, x => (x % 256) :: leBytes w (x / 256)

def ofLeBytes : List Nat → Nat
  | [] => 0
  | b :: bs => b + 256 * ofLeBytes bs

/-- The byte representation every tensor kind must return from `tobytes()`
    (`_create_np_array_for_byte_representation`): packed for 4- and 2-bit types, otherwise the
    little-endian item bytes.  `bw` is the bit width of the element type. -/
def tobytes (bw : Nat) (xs : List Nat) : List Nat :=
  if bw = 4 then pack4 xs
  else if bw = 2 then pack2 xs
  else xs.flatMap (leBytes (bw / 8))

/-! ### The specification of the packed little-endian layout, as a bit stream

Independent of `pack4` / `pack2` / `leBytes`: the ONNX layout says that element `i` of a tensor of
`w`-bit elements occupies bits `[i*w, (i+1)*w)` of the tensor's bytes read as one little-endian
bit stream (byte 0 first, bit 0 of a byte first), the FIRST element in the LOW bits, and that the
unused high bits of the last byte are zero. -/

/-- the `k` low bits of `x`, least significant first -/
def natBits : Nat → Nat → List Bool
  | 0, _ => []
  | k + 1, x => (x % 2 == 1) :: natBits k (x / 2)

/-- the little-endian bit stream of a byte sequence: bit 0 of byte 0 first -/
def bitStream (bs : List Nat) : List Bool := bs.flatMap (natBits 8)

/-- the specified bit stream of `xs` as `w`-bit elements stored in `nb` bytes: the elements' bits
    in order, low bit first, then zero padding up to `8 * nb` bits -/
def elemStream (w : Nat) (xs : List Nat) (nb : Nat) : List Bool :=
  xs.flatMap (natBits w) ++ List.replicate (8 * nb - xs.length * w) false

end IrVerif.Pack

import IrVerif.Model.ScopeSerdeBridgeModel
import IrVerif.Model.ScopeFunc9
/-!
Definitions of the C02 bridge for models with functions in the IR version < 10 format (value info of function values
in the main graph's value_info under `domain::name/value`).  `absM`, `coreOfM`, `absIRM` are those of
`ScopeSerdeBridgeModel`.  Core Lean only.
-/
namespace IrVerif.Bridge
open IrVerif.Proto IrVerif.Serde

/-- no entry of the main graph's value_info addresses a function value with the EMPTY name (`domain::name/`).
    Needed: serde.py applies such an entry to the anonymous outputs `Value(name="")` of the function's nodes (the
    Scope model does so too), C02's IR has no record for an anonymous output and skips it. -/
def noEmptyExp (V : List ValueInfoP) : Bool :=
  V.all fun vi => match parseExperimentalName vi.name with
    | some (_, _, vn) => vn != ""
    | none => true

/-- the shared fragment for models in the IR version < 10 format -/
def sharedM9 (m : ModelP) : Bool :=
  wfModel m && decide (m.irVersion < 10) && noEmptyExp m.graph.valueInfo

/-- the fragment of the serialization bridge for models in the IR version < 10 format -/
def sharedSM9 (m : ModelP) : Bool :=
  sharedM9 m && noValueMetaFull m.graph && canonTensorsFull m.graph && m.functions.all sideF

/-- what the simulation of `serialize_model` (IR version < 10) needs from a C02 IR model (decidable) -/
def GOKM9 (x : IRModel) : Bool := GOKFull x.graph && x.functions.all okF && decide (x.irVersion < 10)

end IrVerif.Bridge

/-
The flat writer model `IrVerif.Writer` (Model/Writer.lean) as the one-pool instance of the general model
`IrVerif.WriterN` (Model/WriterN.lean): the translation of configurations, states and labels.
`Lemmas/WriterFlatN.lean` proves that the translation is a lock-step bisimulation, so the flat model needs
no variants of its own (callback=None: `stepNC` of the translated configuration).
Only core Lean is imported (linked into `irdriver`: the driver evaluates `toN` and `absState`).
-/
import IrVerif.Model.Writer
import IrVerif.Model.WriterN
namespace IrVerif.Writer

def toNTensor (t : Tensor) : WriterN.Tensor :=
  ⟨t.obj, t.size, t.fails, t.cbFails, t.job, t.file, t.off, t.data⟩

/-- the one-pool configuration of the general model: pool 0 with `workers` threads owned by the main thread,
    `as_completed` + cancel in mode `parallel`, in-order collection in mode `shards`; job `j` is a serial job
    starting at `jobStarts[j]`; no inner callback lock -/
def toN (cfg : Cfg) : WriterN.Cfg where
  capacity := cfg.capacity
  nObjs := cfg.nObjs
  tensors := cfg.tensors.map toNTensor
  pools := [⟨cfg.workers, decide (cfg.mode = .parallel), List.range cfg.nJobs, false, none⟩]
  jobs := cfg.jobStarts.map fun st => ⟨0, st, none⟩
  files := cfg.files

def absPc : Pc → WriterN.Pc
  | .notStarted => .notStarted
  | .tAcq => .tAcq
  | .cbAcq => .cbAcq
  | .cbBody => .cbBody
  | .bAcq => .bAcq
  | .waiting => .waiting
  | .woken => .woken
  | .write => .write
  | .bRel ok => .bRel ok
  | .done ok => .done ok

def absFut : Fut → WriterN.Fut
  | .pending => .pending
  | .running => .running
  | .cancelled => .cancelled
  | .ok => .ok
  | .err => .err

def absMain : MainPc → WriterN.OwnerPc
  | .submit k => .submit k
  | .collect => .collect
  | .join e => .join e
  | .finished e => .closed e

def absState (s : State) : WriterN.State where
  pools := [⟨absMain s.main, s.queue, s.collected, s.idle, s.exited, s.shutdown⟩]
  futs := s.futs.map absFut
  tasks := s.tasks.map absPc
  cbLock := s.cbLock
  cbIn := [false]
  tLocks := s.tLocks
  inFlight := s.inFlight
  oversized := s.oversized
  log := s.log
  files := s.files

def absLabel : Label → WriterN.Label
  | .main c => .owner 0 c
  | .take => .take 0
  | .exit => .exit 0
  | .task i => .task i

end IrVerif.Writer

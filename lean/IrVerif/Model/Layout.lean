/-
Model of the external-data layout code of onnx_ir (property C07).

Transcribed from
* `src/onnx_ir/external_data.py` 44-62 (`_align_offset`), 206-252 (`_shard_tensors`),
  318-333 (`_compute_external_data_info`), 758-766 (running offset of
  `convert_tensors_to_external`), 785-911 (`_write_external_tensors`: shard naming and the order
  in which the external tensors are collected), 1041-1085 (threshold split and re-pointing in
  `unload_from_model`), 573-650 (serial and parallel writers: the file image),
* `src/onnx_ir/_shard_filename.py` (`get_shard_filename`),
* `src/onnx_ir/_safetensors/__init__.py` 102-134 (`_shard_tensors`), 199-208 (threshold),
  137-158 (`_replace_tensors`),
* `src/onnx_ir/_io.py` 171-199 (`save`: collect, try, finally-restore).

Line numbers are those of the snapshot the work started from (/repo ba80127); the fixes D60-D63
(8e6568a, 2321f48, bd663f8, db4dfb4) are included in what is transcribed.
Sizes, offsets and bytes are `Nat`; thresholds that Python does not validate are `Int`.
Only core Lean is imported (the file is linked into the `irdriver` executable).
-/
namespace IrVerif.Layout

/-! ## Offsets -/

/-- `_align_offset(current_offset, tensor_size, alignment, align_threshold)`
    (external_data.py 44-62).  `alignment = none` is Python `None`. -/
def alignOffset (cur size : Nat) (alignment : Option Nat) (alignThreshold : Nat) : Nat :=
  match alignment with
  | none => cur
  | some a =>
    if size ≤ alignThreshold then cur
    else (cur + max 4096 a - 1) / max 4096 a * max 4096 a

/-- `_ExternalDataInfo` without the name. -/
structure Info where
  offset : Nat
  length : Nat
deriving Repr, DecidableEq, Inhabited

def Info.stop (i : Info) : Nat := i.offset + i.length

/-- The loop of `convert_tensors_to_external` (external_data.py 758-766) started at running
    offset `cur`: one `_compute_external_data_info` (318-333) per tensor size. -/
def computeInfosFrom (al : Option Nat) (thr : Nat) : Nat → List Nat → List Info
  | _, [] => []
  | cur, s :: rest =>
    let off := alignOffset cur s al thr
    ⟨off, s⟩ :: computeInfosFrom al thr (off + s) rest

def computeInfos (al : Option Nat) (thr : Nat) (sizes : List Nat) : List Info :=
  computeInfosFrom al thr 0 sizes

/-- value of `current_offset` when the loop ends -/
def layoutEndFrom (al : Option Nat) (thr : Nat) : Nat → List Nat → Nat
  | cur, [] => cur
  | cur, s :: rest => layoutEndFrom al thr (alignOffset cur s al thr + s) rest

def layoutEnd (al : Option Nat) (thr : Nat) (sizes : List Nat) : Nat := layoutEndFrom al thr 0 sizes

/-- `total_size` of `_write_parallel` (external_data.py 599-602): `max(offset+length, default=0)`. -/
def totalSize (infos : List Info) : Nat := infos.foldl (fun m i => max m i.stop) 0

/-! ## Sharding -/

section Shard
variable {α : Type} (size : α → Nat)

/-- `_shard_tensors` of external_data.py 230-252.  `cur` is `shards[-1]`, `sz` is `shard_size`;
    finished shards are emitted in order.  The condition is the Python one:
    `offset + nbytes > max_shard_size_bytes and shards[-1]`. -/
def shardRawGo (limit : Nat) (al : Option Nat) (thr : Nat) : List α → Nat → List α → List (List α)
  | cur, _, [] => [cur]
  | cur, sz, t :: rest =>
    let off := alignOffset sz (size t) al thr
    if off + size t > limit ∧ cur ≠ [] then
      cur :: shardRawGo limit al thr [t] (0 + size t) rest
    else
      shardRawGo limit al thr (cur ++ [t]) (off + size t) rest

def shardRaw (limit : Nat) (al : Option Nat) (thr : Nat) (ts : List α) : List (List α) :=
  shardRawGo size limit al thr [] 0 ts

/-- `_shard_tensors` of `_safetensors/__init__.py` (with a limit):
    `current_shard_size + nbytes > max and shards[-1]` (since fix D62, /repo bd663f8; before it
    the code tested `current_shard_size > 0`, which let zero-size tensors share a shard with an
    oversized one; the witness is an `example` in Props/C07). -/
def shardStGo (limit : Nat) : List α → Nat → List α → List (List α)
  | cur, _, [] => [cur]
  | cur, sz, t :: rest =>
    if sz + size t > limit ∧ cur ≠ [] then
      cur :: shardStGo limit [t] (0 + size t) rest
    else
      shardStGo limit (cur ++ [t]) (sz + size t) rest

def shardSt (limit : Option Nat) (ts : List α) : List (List α) :=
  match limit with
  | none => [ts]
  | some l => shardStGo size l [] 0 ts

end Shard

/-! ## Shard file names (`_shard_filename.py`) -/

/-- decimal digits, most significant first (`fuel` bounds the recursion) -/
def digitsAux : Nat → Nat → List Char → List Char
  | 0, _, acc => acc
  | fuel + 1, n, acc =>
    let acc' := Char.ofNat (48 + n % 10) :: acc
    if n / 10 = 0 then acc' else digitsAux fuel (n / 10) acc'

def digits (n : Nat) : List Char := digitsAux (n + 1) n []

/-- Python `f"{n:05d}"` for `n ≥ 0`. -/
def pad5 (n : Nat) : List Char :=
  let d := digits n
  List.replicate (5 - d.length) '0' ++ d

/-- index one past the last occurrence of `c`, or 0 (Python `p.rfind(c) + 1`) -/
def rfindSucc (c : Char) : List Char → Nat
  | [] => 0
  | x :: xs =>
    let r := rfindSucc c xs
    if r > 0 then r + 1 else if x = c then 1 else 0

def rstripSlash (p : List Char) : List Char := (p.reverse.dropWhile (· = '/')).reverse

/-- `posixpath.split`. -/
def posixSplit (p : List Char) : List Char × List Char :=
  let i := rfindSucc '/' p
  let head := p.take i
  let tail := p.drop i
  let head := if head ≠ [] ∧ head ≠ List.replicate head.length '/' then rstripSlash head else head
  (head, tail)

/-- `posixpath.join(a, b)` for two components. -/
def posixJoin (a b : List Char) : List Char :=
  if b.head? = some '/' then b
  else if a = [] ∨ a.getLast? = some '/' then a ++ b
  else a ++ '/' :: b

/-- `posixpath.splitext` (`genericpath._splitext` with sep `/`, extsep `.`). -/
def splitext (p : List Char) : List Char × List Char :=
  let sepIdx := rfindSucc '/' p          -- sepIndex + 1
  let dotIdx := rfindSucc '.' p          -- dotIndex + 1
  if dotIdx > sepIdx then
    -- skip all leading dots of the file name: is there a non-dot in p[sepIdx .. dotIdx-1) ?
    if ((p.take (dotIdx - 1)).drop sepIdx).any (· ≠ '.') then
      (p.take (dotIdx - 1), p.drop (dotIdx - 1))
    else (p, [])
  else (p, [])

def isAsciiAlpha (c : Char) : Bool := (c.val ≥ 65 && c.val ≤ 90) || (c.val ≥ 97 && c.val ≤ 122)
def isAsciiDigit (c : Char) : Bool := c.val ≥ 48 && c.val ≤ 57

/-- `_is_extension_suffix` (`_shard_filename.py` 11-21). -/
def isExtensionSuffix (suffix : List Char) : Bool :=
  match suffix.drop 1 with
  | [] => false
  | e :: es => isAsciiAlpha e && (e :: es).all (fun c => isAsciiAlpha c || isAsciiDigit c || c = '_')

/-- the `while` loop of `get_shard_filename`: peel extension suffixes (at most `count` when
    given); returns the stem and the suffixes in peeling order.  `fuel` bounds the recursion
    (every iteration shortens `name`). -/
def peelSuffixes : Nat → Option Nat → List Char → List (List Char) → List Char × List (List Char)
  | 0, _, name, acc => (name, acc)
  | fuel + 1, count, name, acc =>
    if (match count with | none => true | some c => decide (acc.length < c)) then
      let (cand, suffix) := splitext name
      if suffix = [] ∨ ¬ isExtensionSuffix suffix then (name, acc)
      else peelSuffixes fuel count cand (acc ++ [suffix])
    else (name, acc)

/-- `get_shard_filename(base_name, shard_idx, total_shards, suffix_count=…)`. -/
def shardFilename (base : List Char) (idx total : Nat) (suffixCount : Option Nat) : List Char :=
  if total = 1 then base
  else
    let (dir, filename) := posixSplit base
    let (name, suffixes) := peelSuffixes (filename.length + 1) suffixCount filename []
    let ext := suffixes.reverse.flatten
    let f := name ++ '-' :: pad5 idx ++ "-of-".toList ++ pad5 total ++ ext
    if dir ≠ [] then posixJoin dir f else f

/-! ## Threshold split and placement -/

/-- what the save code needs to know about one initializer value -/
structure Init where
  nbytes : Nat
  isExternal : Bool      -- `isinstance(const_value, ExternalTensor)`
  hasConst : Bool := true  -- `const_value is not None`
  isString : Bool := false -- `const_value.dtype == STRING` (no byte representation)
deriving Repr, DecidableEq, Inhabited

/-- the two lists built by `unload_from_model` (external_data.py 1041-1053), as positions into
    the declaration-ordered initializer list.  String tensors are skipped (fix D63, /repo
    db4dfb4; before it the code tried to write them and raised). -/
def splitRawGo (thr : Int) : Nat → List Init → List Nat × List Nat
  | _, [] => ([], [])
  | k, v :: rest =>
    let (ext, mem) := splitRawGo thr (k + 1) rest
    if ¬ v.hasConst then (ext, mem)
    else if v.isString then (ext, mem)
    else if (v.nbytes : Int) > thr then (k :: ext, mem)
    else if v.isExternal then (ext, k :: mem)
    else (ext, mem)

def splitRaw (thr : Int) (vs : List Init) : List Nat × List Nat := splitRawGo thr 0 vs

/-- `_save_file` of the safetensors backend (199-208): `nbytes < threshold` is not saved.
    A skipped tensor that is external is loaded to memory like the raw backend does (fix D60,
    /repo 8e6568a) and string tensors are skipped (fix D63, db4dfb4). -/
def splitStGo (thr : Int) : Nat → List Init → List Nat × List Nat
  | _, [] => ([], [])
  | k, v :: rest =>
    let (ext, mem) := splitStGo thr (k + 1) rest
    if ¬ v.hasConst then (ext, mem)            -- filtered by save_safetensors (408-409)
    else if v.isString then (ext, mem)
    else if (v.nbytes : Int) < thr then (if v.isExternal then (ext, k :: mem) else (ext, mem))
    else (k :: ext, mem)

def splitSt (thr : Int) (vs : List Init) : List Nat × List Nat := splitStGo thr 0 vs

/-- where one externalised tensor ends up: 0-based shard index, shard count, byte range -/
structure Placement where
  shard : Nat
  total : Nat
  offset : Nat
  length : Nat
deriving Repr, DecidableEq, Inhabited

/-- per-shard infos, in the order `_write_external_tensors` extends `external_tensors`
    (external_data.py 857-911) -/
def placeShards (al : Option Nat) (thr : Nat) (shards : List (List Nat)) : List Placement :=
  let total := shards.length
  (shards.zipIdx).flatMap fun (sh, i) =>
    (computeInfos al thr sh).map fun inf => ⟨i, total, inf.offset, inf.length⟩

/-- `_write_external_tensors`: single file when `maxShard = none`, shards otherwise. -/
def placeRaw (sizes : List Nat) (maxShard : Option Nat) (al : Option Nat) (thr : Nat) :
    List Placement :=
  match maxShard with
  | none => (computeInfos al thr sizes).map fun inf => ⟨0, 1, inf.offset, inf.length⟩
  | some m => placeShards al thr (shardRaw id m al thr sizes)

/-- new state of one initializer after `unload_from_model` -/
inductive NewConst
  | same                     -- object untouched
  | memory                   -- replaced by an in-memory copy (was external, not above threshold)
  | external (p : Placement) -- replaced by a new ExternalTensor
deriving Repr, DecidableEq, Inhabited

/-- `zip(values, new)` then assignment: position `k` of `news` goes to value `idxs[k]` -/
def assignZip (st : List NewConst) : List Nat → List NewConst → List NewConst
  | i :: is, n :: ns => assignZip (st.set i n) is ns
  | _, _ => st

/-- the whole of `unload_from_model` (1041-1085) on the declaration-ordered initializer list -/
def unloadRaw (vs : List Init) (thr : Int) (maxShard : Option Nat) (al : Option Nat)
    (athr : Nat) : List NewConst :=
  let (ext, mem) := splitRaw thr vs
  let sizes := ext.map fun k => (vs.getD k default).nbytes
  let places := placeRaw sizes maxShard al athr
  let st := List.replicate vs.length NewConst.same
  let st := assignZip st ext (places.map NewConst.external)
  assignZip st mem (mem.map fun _ => NewConst.memory)

/-- safetensors backend: shard index of every saved tensor, in saving order
    (`_save_file` 215-253: `weight_map[tensor.name] = shard_filename`); offsets inside a
    safetensors file are the library's and are not modelled (recorded as 0) -/
def placeSt (sizes : List Nat) (maxShard : Option Nat) : List Placement :=
  let shards := shardSt id maxShard sizes
  (shards.zipIdx).flatMap fun (sh, i) => sh.map fun n => ⟨i, shards.length, 0, n⟩

/-- `_save_file` + `_replace_tensors` of the safetensors backend on the declaration-ordered
    initializer list -/
def unloadSt (vs : List Init) (thr : Int) (maxShard : Option Nat) : List NewConst :=
  let (ext, mem) := splitSt thr vs
  let sizes := ext.map fun k => (vs.getD k default).nbytes
  let st := List.replicate vs.length NewConst.same
  let st := assignZip st ext ((placeSt sizes maxShard).map NewConst.external)
  assignZip st mem (mem.map fun _ => NewConst.memory)

/-! ## File image -/

/-- `file.seek(off); file.write(bs)` on a file whose content is `img` (holes read as zeros;
    writing nothing does not extend the file) -/
def writeAt (img : List Nat) (off : Nat) (bs : List Nat) : List Nat :=
  if bs = [] then img
  else
    let img' := img ++ List.replicate (off - img.length) 0
    img'.take off ++ bs ++ img'.drop (off + bs.length)

def readAt (img : List Nat) (off len : Nat) : List Nat := (img.drop off).take len

/-- one positioned write: (offset, bytes) -/
abbrev Write := Nat × List Nat

def applyWrites (img : List Nat) (ws : List Write) : List Nat :=
  ws.foldl (fun img w => writeAt img w.1 w.2) img

/-- `_write_serial` (573-586): open "wb", then seek+write per tensor in order. -/
def serialImage (ws : List Write) : List Nat := applyWrites [] ws

/-- `_write_parallel` (599-650): truncate to `total`, then the writes in the order `ws` is
    given (any schedule of the workers). -/
def parallelImage (total : Nat) (ws : List Write) : List Nat :=
  applyWrites (List.replicate total 0) ws

/-- the writes `convert_tensors_to_external` issues for tensors whose `tobytes()` are `bs`
    (offsets from the running-offset loop over `nbytes = len(bytes)`) -/
def writesOf (al : Option Nat) (thr : Nat) (bs : List (List Nat)) : List Write :=
  ((computeInfos al thr (bs.map List.length)).zip bs).map fun p => (p.1.offset, p.2)

/-- reorder a list by a list of positions (a worker schedule); positions out of range are
    dropped -/
def reorder {α : Type} (xs : List α) (order : List Nat) : List α := order.filterMap (xs[·]?)

/-- The data files `_write_external_tensors` (785-911) produces for tensors whose bytes are `bs`
    (in the order they were collected): one image per shard.  `sched = none` is the serial
    writer; `some order` is the parallel writer (preallocate, then the writes in that order). -/
def dataFiles (bs : List (List Nat)) (maxShard : Option Nat) (al : Option Nat) (athr : Nat)
    (sched : Option (List Nat)) : List (List Nat) :=
  let shards := match maxShard with
    | none => [bs]
    | some m => shardRaw List.length m al athr bs
  shards.map fun sh =>
    match sched with
    | none => serialImage (writesOf al athr sh)
    | some order =>
      parallelImage (totalSize (computeInfos al athr (sh.map List.length)))
        (reorder (writesOf al athr sh) order)

/-- bytes of the tensors `unload_from_model` externalises, in the order it collects them
    (`tensors_to_externalize`, 1061-1064); `vb` pairs every initializer with its `tobytes()` -/
def extBytes (vb : List (Init × List Nat)) (thr : Int) : List (List Nat) :=
  (splitRaw thr (vb.map (·.1))).1.map fun k => (vb.getD k default).2

/-- the data files of a whole raw-backend save -/
def saveRawFiles (vb : List (Init × List Nat)) (thr : Int) (maxShard : Option Nat)
    (al : Option Nat) (athr : Nat) (sched : Option (List Nat)) : List (List Nat) :=
  dataFiles (extBytes vb thr) maxShard al athr sched

/-- file name of 0-based shard `i` out of `total` for the raw backend (826-828) -/
def rawShardName (base : List Char) (i total : Nat) : List Char :=
  shardFilename base (i + 1) total none

/-- file name of 0-based shard `i` for the safetensors backend (74-77: one suffix only) -/
def stShardName (base : List Char) (i total : Nat) : List Char :=
  shardFilename base (i + 1) total (some 1)

/-! ## `save`: collect, try, finally-restore (`_io.py` 171-199) -/

/-- `Value.const_value` of every value cell, by value id (`none` = Python `None`) -/
abbrev Store := Nat → Option Nat

def Store.set (st : Store) (v : Nat) (t : Option Nat) : Store := fun w => if w = v then t else st w

/-- `for value, tensor in zip(values, tensors): value.const_value = tensor` -/
def assignAll (st : Store) : List (Nat × Option Nat) → Store
  | [] => st
  | (v, t) :: rest => assignAll (st.set v t) rest

/-- places inside the `try` block at which an exception can surface -/
inductive Phase
  | validate   -- option validation / shard pre-flight (`_validate_write_options`, FileExistsError)
  | loadMem    -- loading one small external tensor into memory (`convert_tensors_from_external`)
  | write      -- materialising / writing one tensor (`tofile`, `tobytes`)
  | serialize  -- `serde.serialize_model`
  | protoSave  -- `onnx.save`
deriving Repr, DecidableEq, Inhabited

/-- one step of a save: `value.const_value = tensor`, or a point where an exception can surface -/
inductive Step
  | assign (v : Nat) (t : Option Nat)
  | point (ph : Phase)
deriving Repr, DecidableEq, Inhabited

/-- what `save` remembers before the `try` (value cells, in order) and what it does inside it -/
structure SavePlan where
  snapshot : List Nat
  prog : List Step

/-- `ir.save(model, path, external_data=…)` (`_io.py` 171-199 around `unload_from_model`
    1035-1085).  Value cells are the positions of the declaration-ordered initializer list; the
    tensor object created for position `k` is `fresh + k`.  Order of effects as in the source:
    validation; small external tensors are loaded (kept in a local list); all writes; only then
    the two assignment loops; serialization; writing the proto.  The snapshot covers every
    initializer value (also those without a tensor). -/
def rawPlan (vs : List Init) (thr : Int) (fresh : Nat) : SavePlan :=
  let (ext, mem) := splitRaw thr vs
  { snapshot := List.range vs.length
    prog := [Step.point .validate] ++ mem.map (fun _ => Step.point .loadMem)
      ++ [Step.point .validate]   -- sharded pre-flight check
      ++ ext.map (fun _ => Step.point .write)
      ++ ext.map (fun k => Step.assign k (some (fresh + k)))
      ++ mem.map (fun k => Step.assign k (some (fresh + k)))
      ++ [Step.point .serialize, Step.point .protoSave] }

/-- the collection loop of `_save_file` (safetensors, 202-215): a small external tensor is
    replaced by its in-memory copy at once, in declaration order -/
def stLoadSteps (thr : Int) : Nat → Nat → List Init → List Step
  | _, _, [] => []
  | fresh, k, v :: rest =>
    (if memStB thr v then [Step.point .loadMem, Step.assign k (some (fresh + k))] else [])
      ++ stLoadSteps thr fresh (k + 1) rest
where
  memStB (thr : Int) (v : Init) : Bool :=
    v.hasConst && !v.isString && decide ((v.nbytes : Int) < thr) && v.isExternal

/-- `ir.save_safetensors` (394-431 around `_save_file` and `_replace_tensors`): the snapshot
    holds only the values with a non-string tensor; small external tensors are re-pointed while
    collecting, then every tensor is materialised and the shard files are written, then the saved
    values are re-pointed, then `ir.save` serializes and writes the proto. -/
def stPlan (vs : List Init) (thr : Int) (fresh : Nat) : SavePlan :=
  let (ext, _) := splitSt thr vs
  { snapshot := (List.range vs.length).filter fun k =>
      (vs.getD k default).hasConst && !(vs.getD k default).isString
    prog := stLoadSteps thr fresh 0 vs
      ++ ext.map (fun _ => Step.point .write)
      ++ ext.map (fun k => Step.assign k (some (fresh + k)))
      ++ [Step.point .serialize, Step.point .protoSave] }

def execSteps (st : Store) : List Step → Store
  | [] => st
  | .assign v t :: rest => execSteps (st.set v t) rest
  | .point _ :: rest => execSteps st rest

/-- index of the `occ`-th (0-based) point of phase `ph` in a program -/
def pointIndex (ph : Phase) : Nat → List Step → Option Nat
  | _, [] => none
  | occ, s :: rest =>
    if s = Step.point ph then
      (match occ with
       | 0 => some 0
       | occ + 1 => (pointIndex ph occ rest).map (· + 1))
    else (pointIndex ph occ rest).map (· + 1)

/-- Run a save.  `stop = none`: it returns normally; `stop = some n`: an exception surfaces when
    `n` steps of the program have completed.  In both cases the `finally` block then assigns
    the remembered tensor to every remembered value, in order (an attribute store of an object
    that was there before; it cannot raise).  Returns the store at that moment and at the end. -/
def saveRun (st : Store) (plan : SavePlan) (stop : Option Nat) : Store × Store :=
  let done := match stop with
    | none => plan.prog
    | some n => plan.prog.take n
  let mid := execSteps st done
  (mid, assignAll mid (plan.snapshot.map fun v => (v, st v)))

end IrVerif.Layout

/-!
# Model of region extraction and implicit-capture analysis (property C18)

Transcribes
* `src/onnx_ir/_convenience/_extractor.py` 16-39 (`_collect_all_external_values`, with the D47 fix), 42-132
  (`_find_subgraph_bounded_by_values`: backward walk, frontier validation, sort by original index),
  130-191 (`extract`: name resolution, ownership check, view construction, clone of the view);
* `src/onnx_ir/_convenience/__init__.py` 471-525 (`create_value_mapping`, `include_subgraphs=False`);
  `nameCandidates` is the flat (name, value) list its lookups are proved equal to;
* `node.attributes.values()` as both traversals read it (`AttrT`, `attrBodies`, `procAttrs`, `capturedAttrs`:
  reference attributes skipped, GRAPH one graph, GRAPHS its members);
* `src/onnx_ir/_cloner.py` 76-100, 162-185, 258-287 restricted to the *keys of the value map* (which
  decides whether the clone of the view raises; the structure of the clone itself is property C13);
* `src/onnx_ir/analysis/_implicit_usage.py` 14-74 (`analyze_implicit_usage`, with the D34 fix: the analysed
  root is skipped when walking the graph stack);
* (follow-up round) `_cloner.py` 336-362 + `_graph_containers.py` 196-205, 243-248, 285-290, 325-328: the
  ownership checks of the `Graph(...)` constructor on the clones (`CSt`, `cloneGO`, `Err.cloneOwned`,
  `extractO` = the pipeline as the code runs it; `extractOF` = the same after the proposed fix D460).

Core Lean only.  Objects are creation indices: `VId` indexes `World.vals`, `NId` indexes `World.nodes`
(the table of every node of the model under test), graphs are identified by `GId`.  Nested graphs are
carried structurally (`NodeT.bodies`), so the traversals of nested scopes are structural recursions.
Python `set`s are lists (membership is what matters; iteration order of a set is hash order in Python,
list order here: the theorems of `Props/C18.lean` characterise the results as sets, independent of order).
-/
namespace IrVerif.Extract

abbrev VId := Nat
abbrev NId := Nat
abbrev GId := Nat

mutual
  /-- a graph: identity, inputs, initializer values, outputs, nodes in order -/
  inductive GraphT where
    | mk (gid : GId) (inputs inits outputs : List VId) (nodes : List NodeT)
  /-- a node: inputs (`none` = missing optional input), outputs, graphs held by its attributes in
      attribute order (`GRAPH` gives one, `GRAPHS` gives its list) -/
  inductive NodeT where
    | mk (inputs : List (Option VId)) (outputs : List VId) (bodies : List GraphT)
end

def NodeT.inputs : NodeT → List (Option VId) | .mk i _ _ => i
def NodeT.outputs : NodeT → List VId | .mk _ o _ => o
def NodeT.bodies : NodeT → List GraphT | .mk _ _ b => b
def GraphT.gid : GraphT → GId | .mk g _ _ _ _ => g
def GraphT.inputs : GraphT → List VId | .mk _ i _ _ _ => i
def GraphT.inits : GraphT → List VId | .mk _ _ w _ _ => w
def GraphT.outputs : GraphT → List VId | .mk _ _ _ o _ => o
def GraphT.nodes : GraphT → List NodeT | .mk _ _ _ _ n => n

@[simp] theorem NodeT.inputs_mk (i : List (Option VId)) (o : List VId) (b : List GraphT) :
    (NodeT.mk i o b).inputs = i := rfl
@[simp] theorem NodeT.outputs_mk (i : List (Option VId)) (o : List VId) (b : List GraphT) :
    (NodeT.mk i o b).outputs = o := rfl
@[simp] theorem NodeT.bodies_mk (i : List (Option VId)) (o : List VId) (b : List GraphT) :
    (NodeT.mk i o b).bodies = b := rfl
@[simp] theorem GraphT.gid_mk (g : GId) (i w o : List VId) (n : List NodeT) : (GraphT.mk g i w o n).gid = g := rfl
@[simp] theorem GraphT.inputs_mk (g : GId) (i w o : List VId) (n : List NodeT) : (GraphT.mk g i w o n).inputs = i := rfl
@[simp] theorem GraphT.inits_mk (g : GId) (i w o : List VId) (n : List NodeT) : (GraphT.mk g i w o n).inits = w := rfl
@[simp] theorem GraphT.outputs_mk (g : GId) (i w o : List VId) (n : List NodeT) : (GraphT.mk g i w o n).outputs = o := rfl
@[simp] theorem GraphT.nodes_mk (g : GId) (i w o : List VId) (n : List NodeT) : (GraphT.mk g i w o n).nodes = n := rfl

/-- the non-`None` inputs of a node -/
def NodeT.ins (n : NodeT) : List VId := n.inputs.filterMap id

/-- what the walk reads from a `Value`: `name` (`""` stands for `None` or `""`: the code only tests
    `not value.name`), `producer()`, the `graph` property, `is_initializer()` -/
structure ValueS where
  name : String := ""
  producer : Option NId := none
  graph : Option GId := none
  isInit : Bool := false
deriving Repr, Inhabited

structure World where
  vals : List ValueS
  nodes : List NodeT

def World.val (W : World) (v : VId) : ValueS := W.vals.getD v {}
def World.node? (W : World) (n : NId) : Option NodeT := W.nodes[n]?
def World.nodeD (W : World) (n : NId) : NodeT := (W.nodes[n]?).getD (.mk [] [] [])
/-- `value.producer()` as a node of the table (a dangling index cannot occur in Python; it is read as
    "no producer") -/
def World.prod (W : World) (v : VId) : Option NId :=
  match (W.val v).producer with
  | some n => if n < W.nodes.length then some n else none
  | none => none
def World.isInit (W : World) (v : VId) : Bool := (W.val v).isInit
def World.graphOf (W : World) (v : VId) : Option GId := (W.val v).graph

/-! ## `RecursiveGraphIterator` + `_collect_all_external_values` (extractor 16-34) -/

mutual
  /-- every non-`None` input of every node of the graph, nested graphs included, in the order of
      `RecursiveGraphIterator` (node, then the graphs of its attributes) -/
  def usedG : GraphT → List VId
    | .mk _ _ _ _ ns => usedNs ns
  def usedNs : List NodeT → List VId
    | [] => []
    | n :: ns => usedN n ++ usedNs ns
  def usedN : NodeT → List VId
    | .mk ins _ bs => ins.filterMap id ++ usedGs bs
  def usedGs : List GraphT → List VId
    | [] => []
    | g :: gs => usedG g ++ usedGs gs
end

mutual
  /-- the graphs entered by `RecursiveGraphIterator(graph, enter_graph=...)`: the graph itself and every
      graph nested in it -/
  def gidsG : GraphT → List GId
    | .mk gid _ _ _ ns => gid :: gidsNs ns
  def gidsNs : List NodeT → List GId
    | [] => []
    | n :: ns => gidsN n ++ gidsNs ns
  def gidsN : NodeT → List GId
    | .mk _ _ bs => gidsGs bs
  def gidsGs : List GraphT → List GId
    | [] => []
    | g :: gs => gidsG g ++ gidsGs gs
end

/-- `_collect_all_external_values(parent_graph, graph)` (with the D47 fix): the values used anywhere inside
    `graph` whose `.graph` is the parent graph or is not `graph` / a graph nested in it, i.e. the values the
    nested graph captures from any enclosing scope (a Python set: duplicates are immaterial).
    `val.graph` may be `None`, which is never a member of `inner_graphs`. -/
def externalValues (W : World) (parent : GId) (g : GraphT) : List VId :=
  (usedG g).filter (fun v =>
    W.graphOf v == some parent || !(((gidsG g).map some).contains (W.graphOf v)))

/-- the values captured from `parent` by all graph attributes of a node, in attribute order -/
def captured (W : World) (parent : GId) (n : NodeT) : List VId :=
  n.bodies.flatMap (externalValues W parent)

/-! ## `_find_subgraph_bounded_by_values` (extractor 37-127) -/

/-- loop state of the backward walk (lines 60-93); `stack` head = top of `value_stack`;
    `nodesV` is `all_nodes` (and, as a set, `visited_nodes`) -/
structure WS where
  stack : List VId
  nodesV : List NId
  valsV : List VId
  inited : List VId
deriving Repr

def addSet (xs : List Nat) (x : Nat) : List Nat := if x ∈ xs then xs else xs ++ [x]

/-- the values pushed when a node is visited for the first time (lines 78-93): direct inputs that are not
    `None` and not visited, then the captured values of every graph attribute that are not visited.
    `visited_values` does not change while pushing. -/
def pushes (W : World) (parent : GId) (valsV : List VId) (nd : NodeT) : List VId :=
  (nd.ins.filter (fun v => !(valsV.contains v))) ++
  ((captured W parent nd).filter (fun v => !(valsV.contains v)))

def nodeCost (W : World) (parent : GId) (n : NId) : Nat :=
  ((W.nodeD n).ins ++ captured W parent (W.nodeD n)).length

def unvisitedCost (W : World) (parent : GId) (vis : List NId) : Nat :=
  (((List.range W.nodes.length).filter (fun n => !(vis.contains n))).map (nodeCost W parent)).sum

theorem unvisitedCost_visit (W : World) (parent : GId) (vis : List NId) (n : NId)
    (hn : n < W.nodes.length) (hv : ¬ n ∈ vis) :
    unvisitedCost W parent (vis ++ [n]) + nodeCost W parent n ≤ unvisitedCost W parent vis := by
  unfold unvisitedCost
  have hmem : n ∈ List.range W.nodes.length := List.mem_range.mpr hn
  generalize List.range W.nodes.length = L at hmem
  induction L with
  | nil => cases hmem
  | cons a L ih =>
    by_cases ha : a = n
    · subst ha
      have h1 : ((vis ++ [a]).contains a) = true := by simp
      have h2 : (vis.contains a) = false := by simpa using hv
      simp only [List.filter_cons, h1, h2, Bool.not_true, Bool.not_false, if_true,
        List.map_cons, List.sum_cons]
      have hle : ∀ L : List Nat,
          ((L.filter (fun n => !((vis ++ [a]).contains n))).map (nodeCost W parent)).sum
            ≤ ((L.filter (fun n => !(vis.contains n))).map (nodeCost W parent)).sum := by
        intro L
        induction L with
        | nil => simp
        | cons b L ihb =>
          by_cases hb1 : b ∈ vis
          · have : (vis ++ [a]).contains b = true := by simp [hb1]
            have h' : vis.contains b = true := by simpa using hb1
            simp only [List.filter_cons, this, h', Bool.not_true]
            simpa using ihb
          · by_cases hb2 : b = a
            · subst hb2
              simp only [List.filter_cons, h1, h2, Bool.not_true, Bool.not_false, if_true,
                List.map_cons, List.sum_cons]
              have : (false = true) = False := by simp
              simp only [this, if_false]
              omega
            · have : (vis ++ [a]).contains b = false := by simp [hb1, hb2]
              have h' : vis.contains b = false := by simpa using hb1
              simp only [List.filter_cons, this, h', Bool.not_false, if_true, List.map_cons,
                List.sum_cons]
              omega
      have := hle L
      simp only [Bool.false_eq_true, if_false]
      omega
    · have hmem' : n ∈ L := by
        cases hmem with
        | head => exact absurd rfl ha
        | tail _ h => exact h
      have := ih hmem'
      by_cases hb1 : a ∈ vis
      · have h1 : (vis ++ [n]).contains a = true := by simp [hb1]
        have h' : vis.contains a = true := by simpa using hb1
        simp only [List.filter_cons, h1, h', Bool.not_true]
        simpa using this
      · have h1 : (vis ++ [n]).contains a = false := by simp [hb1, ha]
        have h' : vis.contains a = false := by simpa using hb1
        simp only [List.filter_cons, h1, h', Bool.not_false, if_true, List.map_cons, List.sum_cons]
        omega

theorem pushes_length_le (W : World) (parent : GId) (valsV : List VId) (n : NId) :
    (pushes W parent valsV (W.nodeD n)).length ≤ nodeCost W parent n := by
  unfold pushes nodeCost
  simp only [List.length_append]
  have h1 := List.length_filter_le (fun v => !(valsV.contains v)) (W.nodeD n).ins
  have h2 := List.length_filter_le (fun v => !(valsV.contains v)) (captured W parent (W.nodeD n))
  omega

/-- one iteration of `while value_stack:` (lines 66-93) on a non-empty stack `v :: rest` -/
def walkStep (W : World) (parent : GId) (s : WS) (v : VId) (rest : List VId) : WS :=
  if v ∈ s.valsV then { s with stack := rest }
  else
    let inited := if W.isInit v then s.inited ++ [v] else s.inited
    let valsV := s.valsV ++ [v]
    match W.prod v with
    | none => { s with stack := rest, valsV := valsV, inited := inited }
    | some n =>
      if n ∈ s.nodesV then { s with stack := rest, valsV := valsV, inited := inited }
      else
        { stack := (pushes W parent valsV (W.nodeD n)).reverse ++ rest,
          nodesV := s.nodesV ++ [n], valsV := valsV, inited := inited }

def potential (W : World) (parent : GId) (s : WS) : Nat :=
  s.stack.length + unvisitedCost W parent s.nodesV

theorem World.prod_lt {W : World} {v : VId} {n : NId} (h : W.prod v = some n) : n < W.nodes.length := by
  unfold World.prod at h
  split at h
  · split at h
    · cases h; assumption
    · cases h
  · cases h

theorem walkStep_potential (W : World) (parent : GId) (s : WS) (v : VId) (rest : List VId)
    (hs : s.stack = v :: rest) :
    potential W parent (walkStep W parent s v rest) < potential W parent s := by
  unfold walkStep potential
  rw [hs]
  by_cases hc : v ∈ s.valsV
  · rw [if_pos hc]; simp
  · rw [if_neg hc]
    cases hp : W.prod v with
    | none => simp
    | some n =>
      by_cases hn : n ∈ s.nodesV
      · simp only [if_pos hn]; simp
      · have hlt := World.prod_lt hp
        have h1 := unvisitedCost_visit W parent s.nodesV n hlt hn
        have h2 := pushes_length_le W parent (s.valsV ++ [v]) n
        simp only [if_neg hn, List.length_append, List.length_reverse, List.length_cons]
        omega

/-- the `while value_stack:` loop -/
def walk (W : World) (parent : GId) (s : WS) : WS :=
  match _h : s.stack with
  | [] => s
  | v :: rest => walk W parent (walkStep W parent s v rest)
termination_by potential W parent s
decreasing_by exact walkStep_potential W parent s v rest _h

/-- lines 56-64: initial state.  For a `Function` the initial initializer set is empty. -/
def walkInit (W : World) (isFunction : Bool) (inputs outputs : List VId) : WS :=
  { stack := outputs.reverse,
    nodesV := [],
    valsV := inputs,
    inited := if isFunction then [] else inputs.filter W.isInit }

/-- lines 95-106: `input_frontier` restricted to what line 113 keeps (`val not in inputs_set and not
    val.is_initializer()`), i.e. `unspecified_graph_inputs` as a set (the sort by name on line 112 only
    orders the error message) -/
def unspecified (W : World) (inputs : List VId) (nodesV : List NId) : List VId :=
  (nodesV.flatMap (fun n => (W.nodeD n).ins)).filter (fun v =>
    (match W.prod v with
     | none => true
     | some p => !(nodesV.contains p)) && !(inputs.contains v) && !(W.isInit v))

/-- insertion into a list sorted by key -/
def insertByKey (key : Nat → Nat) (x : Nat) : List Nat → List Nat
  | [] => [x]
  | y :: ys => if key x < key y then x :: y :: ys else y :: insertByKey key x ys

/-- `list.sort(key=...)` (stable) -/
def sortByKey (key : Nat → Nat) (xs : List Nat) : List Nat :=
  xs.foldr (fun x acc => insertByKey key x acc) []

inductive Err where
  | notOwned      -- ValueError, extractor 160-166
  | nameNotFound  -- ValueError, 167-169
  | noOutputs     -- ValueError, 174-175
  | noParent      -- AssertionError, 177
  | unbounded     -- ValueError, 116-121
  | sortKey       -- KeyError, 124 (a visited node that is not a node of the graph-like object)
  | initNoName    -- ValueError, GraphView.__init__ (_core.py 4164-4166)
  | cloneOuter    -- RuntimeError wrapping ValueError, _cloner.py 168-178
  | cloneOutput   -- RuntimeError wrapping KeyError, _cloner.py 268-270
  | cloneOwned    -- RuntimeError wrapping ValueError of the `Graph(...)` constructor, _graph_containers.py 196-205, 243-248, 285-290, 325-328
deriving Repr, DecidableEq

def Err.pyClass : Err → String
  | .notOwned | .nameNotFound | .noOutputs | .unbounded | .initNoName => "ValueError"
  | .noParent => "AssertionError"
  | .sortKey => "KeyError"
  | .cloneOuter | .cloneOutput | .cloneOwned => "RuntimeError"

/-- `node_index[n]` for `node_index = {node: idx for idx, node in enumerate(graph)}` (extractor 65): a dict
    comprehension keeps the value of the LAST pair with a given key, so a node that a `GraphView` lists
    several times is indexed by its last position.  (`0` for a node that is not listed: never read, the code
    raises `KeyError` there, see `findSubgraph`.) -/
def lastIdx : List NId → NId → Nat
  | [], _ => 0
  | _ :: xs, n => if n ∈ xs then lastIdx xs n + 1 else 0

/-- the node list with only the last occurrence of every node kept (not repository code: the order that
    `node_index` induces, used to state the order theorems for views that repeat a node) -/
def dedupLast : List NId → List NId
  | [] => []
  | x :: xs => if x ∈ xs then dedupLast xs else x :: dedupLast xs

/-- `_find_subgraph_bounded_by_values(graph, inputs, outputs, parent_graph)`; `gnodes` is `list(graph)`
    (a `Graph`, the graph of a `Function`, or the node tuple of a `GraphView`: any list, possibly a subset
    of the nodes of the underlying graph, in another order, with repeats).
    Returns `(all_nodes, initialized_values)`. -/
def findSubgraph (W : World) (isFunction : Bool) (gnodes : List NId) (inputs outputs : List VId)
    (parent : GId) : Except Err (List NId × List VId) :=
  let s := walk W parent (walkInit W isFunction inputs outputs)
  if (unspecified W inputs s.nodesV).isEmpty then
    if s.nodesV.all (fun n => gnodes.contains n) then
      .ok (sortByKey (fun n => lastIdx gnodes n) s.nodesV, s.inited)
    else .error .sortKey
  else .error .unbounded

/-! ## `create_value_mapping(graph, include_subgraphs=False)` (_convenience/__init__.py 480-509) -/

abbrev NameMap := List (String × VId)

def NameMap.setDefault (W : World) (m : NameMap) (v : VId) : NameMap :=
  let nm := (W.val v).name
  if nm == "" then m else if (m.lookup nm).isSome then m else m ++ [(nm, v)]

inductive Kind where | graph | function | view
deriving Repr, DecidableEq

/-- what `extract` reads from its first argument: for a `Function` the fields are those of
    `function.graph`; `gid = none` for a view (a view is not the `.graph` of any value) -/
structure Target where
  kind : Kind
  gid : Option GId
  inputs : List VId
  inits : NameMap        -- `graph.initializers.items()`
  nodes : List NId

def valueMapping (W : World) (T : Target) : NameMap :=
  let m1 := T.inputs.foldl (NameMap.setDefault W) T.inits
  T.nodes.foldl (fun m n =>
    let nd := W.nodeD n
    nd.outputs.foldl (NameMap.setDefault W) (nd.ins.foldl (NameMap.setDefault W) m)) m1

/-- the named values of a list as (name, value) pairs, in order (`None` and `""` are skipped: `if not
    value.name: continue`) -/
def named (W : World) (vs : List VId) : NameMap :=
  (vs.filter (fun v => !((W.val v).name == ""))).map (fun v => ((W.val v).name, v))

/-- every (name, value) pair in the order `create_value_mapping(graph, include_subgraphs=False)` meets them
    (_convenience/__init__.py 493-525): the initializer dict, the graph inputs, then for every node of the
    graph-like object in order its inputs and its outputs.  Not repository code: the specification side of
    `C18_by_name_resolves` ("the first value with that name is returned"). -/
def nameCandidates (W : World) (T : Target) : NameMap :=
  T.inits ++ named W (T.inputs ++ T.nodes.flatMap (fun n => (W.nodeD n).ins ++ (W.nodeD n).outputs))

/-- decidable hypothesis of the "unique names" clause of `C18_by_name_resolves`: a name denotes one value
    among the initializers, inputs and top-level node inputs/outputs of the source -/
def namesUniqueB (W : World) (T : Target) : Bool :=
  (nameCandidates W T).all (fun kv => (nameCandidates W T).all (fun kv' => !(kv.1 == kv'.1) || kv.2 == kv'.2))

/-! ## the graph-like sources of `extract` (extractor 159-164)

`extract` accepts a `Graph`, a `Function` or a `GraphView`.  For a `Function` the name table, the ownership
check and the initializers are those of `function.graph`, and iterating the function iterates that graph.
A `GraphView` carries its own input list, initializer dict and node tuple: any node list (a strict subset
of the nodes of the graph the values live in, another order, repeats), and it is not the `.graph` of any
value, so boundary values given by object are not checked for ownership. -/
inductive Source where
  | graph (gid : GId) (inputs : List VId) (inits : NameMap) (nodes : List NId)
  | function (gid : GId) (inputs : List VId) (inits : NameMap) (nodes : List NId)
  | view (inputs : List VId) (inits : NameMap) (nodes : List NId)

def Source.target : Source → Target
  | .graph gid i w n => { kind := .graph, gid := some gid, inputs := i, inits := w, nodes := n }
  | .function gid i w n => { kind := .function, gid := some gid, inputs := i, inits := w, nodes := n }
  | .view i w n => { kind := .view, gid := none, inputs := i, inits := w, nodes := n }

def Source.nodes (S : Source) : List NId := S.target.nodes
def Source.isFunction (S : Source) : Bool := S.target.kind == Kind.function

/-! ## the clone of the view, as far as it decides `raised` (_cloner.py, keys of `_value_map`) -/

mutual
  /-- `clone_graph` 258-270: inputs and initializers enter the map, nodes are cloned in order, then every
      output must be in the map -/
  def cloneG (m : List VId) : GraphT → Except Err (List VId)
    | .mk _ ins inits outs ns =>
      match cloneNs (m ++ ins ++ inits) ns with
      | .error e => .error e
      | .ok m' => if outs.all (fun v => m'.contains v) then .ok m' else .error .cloneOutput
  def cloneNs (m : List VId) : List NodeT → Except Err (List VId)
    | [] => .ok m
    | n :: ns =>
      match cloneN m n with
      | .error e => .error e
      | .ok m' => cloneNs m' ns
  /-- `clone_node` 162-230 with `allow_outer_scope_values=False`: every input must already be mapped,
      then the graph attributes are cloned, then the outputs enter the map -/
  def cloneN (m : List VId) : NodeT → Except Err (List VId)
    | .mk ins outs bs =>
      if (ins.filterMap id).all (fun v => m.contains v) then
        match cloneGs m bs with
        | .error e => .error e
        | .ok m' => .ok (m' ++ outs)
      else .error .cloneOuter
  def cloneGs (m : List VId) : List GraphT → Except Err (List VId)
    | [] => .ok m
    | g :: gs =>
      match cloneG m g with
      | .error e => .error e
      | .ok m' => cloneGs m' gs
end

/-! ## `extract` (extractor 130-191) -/

inductive Arg where
  | obj (v : VId)
  | name (s : String)
deriving Repr

/-- the extracted region in terms of the source's objects (the `GraphView` of lines 182-191); the real
    result is a clone of it -/
structure View where
  inputs : List VId
  outputs : List VId
  nodes : List NId
  inits : List VId
deriving Repr, DecidableEq

def checkArg (W : World) (T : Target) (m : NameMap) : Arg → Except Err Unit
  | .obj v =>
    if T.kind != Kind.view && W.graphOf v != T.gid then .error .notOwned else .ok ()
  | .name s => if (m.lookup s).isSome then .ok () else .error .nameNotFound

def checkArgs (W : World) (T : Target) (m : NameMap) : List Arg → Except Err Unit
  | [] => .ok ()
  | a :: as =>
    match checkArg W T m a with
    | .error e => .error e
    | .ok () => checkArgs W T m as

def resolveArg (m : NameMap) : Arg → VId
  | .obj v => v
  | .name s => (m.lookup s).getD 0

/-- `GraphView.__init__`: `initializers[name] = value` for each initialized value; a nameless one raises -/
def viewInits (W : World) : List VId → NameMap → Except Err NameMap
  | [], m => .ok m
  | v :: vs, m =>
    let nm := (W.val v).name
    if nm == "" then .error .initNoName
    else viewInits W vs (if (m.lookup nm).isSome then m.map (fun kv => if kv.1 == nm then (nm, v) else kv)
                         else m ++ [(nm, v)])

def extract (W : World) (T : Target) (ins outs : List Arg) : Except Err View :=
  let m := valueMapping W T
  match checkArgs W T m (ins ++ outs) with
  | .error e => .error e
  | .ok () =>
    let inputVals := ins.map (resolveArg m)
    let outputVals := outs.map (resolveArg m)
    match outputVals with
    | [] => .error .noOutputs
    | o0 :: _ =>
      match W.graphOf o0 with
      | none => .error .noParent
      | some parent =>
        match findSubgraph W (T.kind == Kind.function) T.nodes inputVals outputVals parent with
        | .error e => .error e
        | .ok (nodes, inited) =>
          match viewInits W inited [] with
          | .error e => .error e
          | .ok im =>
            let inits := im.map (·.2)
            match cloneG [] (.mk 0 inputVals inits outputVals (nodes.map W.nodeD)) with
            | .error e => .error e
            | .ok _ => .ok { inputs := inputVals, outputs := outputVals, nodes := nodes, inits := inits }

/-! ## the clone of the view with the ownership checks of the `Graph(...)` constructor (follow-up round)

`_clone_graph` (_cloner.py 336-362) ends with `Graph(input_values, output_values, nodes=, initializers=)` on the
CLONES, and the containers refuse a value whose `_graph` is already another graph (`GraphInputs._check_value`,
`GraphOutputs._check_value`, `GraphInitializers._check_value`: _graph_containers.py 196-205, 243-248, 285-290)
and an input / initializer that a node produces (199-205, 325-328).  A clone's `_graph` is set when a finished
(nested) graph lists it as input, output or initializer.  Which clone object a source value currently maps to
matters: `clone_node` binds a NEW value for every output (`self._value_map[output] = new_output`) even when the
key is already bound, while the input / initializer lists of a graph are taken before its nodes are cloned and
its output list after.  A clone is identified here by (source value, generation): generation 0 is the value
made by `_clone_or_get_value`, generation k the value made by the k-th clone of a node that outputs it. -/

structure CSt where
  /-- keys of `_value_map`, exactly as in `cloneG` -/
  m : List VId := []
  /-- every node output cloned so far, with repeats -/
  outs : List VId := []
  /-- the clones that a finished graph lists (their `_graph` is set) -/
  owned : List (VId × Nat) := []
deriving Repr

/-- the clone a bound source value currently maps to -/
def CSt.cur (s : CSt) (v : VId) : VId × Nat := (v, s.outs.count v)

mutual
  def cloneGO (s : CSt) : GraphT → Except Err CSt
    | .mk _ ins inits outs ns =>
      let insC := ins.map s.cur
      let initsC := inits.map s.cur
      match cloneNsO { s with m := s.m ++ ins ++ inits } ns with
      | .error e => .error e
      | .ok s2 =>
        if outs.all (fun v => s2.m.contains v) then
          let outsC := outs.map s2.cur
          if insC.any (fun c => s2.owned.contains c || c.2 != 0) || outsC.any (fun c => s2.owned.contains c) ||
              initsC.any (fun c => s2.owned.contains c || c.2 != 0) then .error .cloneOwned
          else .ok { s2 with owned := s2.owned ++ insC ++ outsC ++ initsC }
        else .error .cloneOutput
  def cloneNsO (s : CSt) : List NodeT → Except Err CSt
    | [] => .ok s
    | n :: ns =>
      match cloneNO s n with
      | .error e => .error e
      | .ok s' => cloneNsO s' ns
  def cloneNO (s : CSt) : NodeT → Except Err CSt
    | .mk ins outs bs =>
      if (ins.filterMap id).all (fun v => s.m.contains v) then
        match cloneGsO s bs with
        | .error e => .error e
        | .ok s' => .ok { s' with m := s'.m ++ outs, outs := s'.outs ++ outs }
      else .error .cloneOuter
  def cloneGsO (s : CSt) : List GraphT → Except Err CSt
    | [] => .ok s
    | g :: gs =>
      match cloneGO s g with
      | .error e => .error e
      | .ok s' => cloneGsO s' gs
end

mutual
  /-- the value lists (inputs, initializers, outputs) of the graphs of a tree in the order the clone finishes
      them: nested graphs first -/
  def postG : GraphT → List (List VId)
    | .mk _ ins inits outs ns => postNs ns ++ [ins ++ inits ++ outs]
  def postNs : List NodeT → List (List VId)
    | [] => []
    | n :: ns => postN n ++ postNs ns
  def postN : NodeT → List (List VId)
    | .mk _ _ bs => postGs bs
  def postGs : List GraphT → List (List VId)
    | [] => []
    | g :: gs => postG g ++ postGs gs
end

mutual
  /-- every node output of the tree, in the order the clone binds them -/
  def outsAllG : GraphT → List VId
    | .mk _ _ _ _ ns => outsAllNs ns
  def outsAllNs : List NodeT → List VId
    | [] => []
    | n :: ns => outsAllN n ++ outsAllNs ns
  def outsAllN : NodeT → List VId
    | .mk _ outs bs => outsAllGs bs ++ outs
  def outsAllGs : List GraphT → List VId
    | [] => []
    | g :: gs => outsAllG g ++ outsAllGs gs
end

mutual
  /-- every graph input and initializer of the tree -/
  def insInitsG : GraphT → List VId
    | .mk _ ins inits _ ns => ins ++ inits ++ insInitsNs ns
  def insInitsNs : List NodeT → List VId
    | [] => []
    | n :: ns => insInitsN n ++ insInitsNs ns
  def insInitsN : NodeT → List VId
    | .mk _ _ bs => insInitsGs bs
  def insInitsGs : List GraphT → List VId
    | [] => []
    | g :: gs => insInitsG g ++ insInitsGs gs
end

/-- no value of an earlier list occurs in a later one -/
def disjFamB : List (List VId) → Bool
  | [] => true
  | a :: rest => rest.all (fun b => a.all (fun v => !b.contains v)) && disjFamB rest

/-- decidable hypothesis of `C18_own_pass`: no value is listed (as input, initializer or output) by two graphs
    of the tree, and no graph input / initializer of the tree is a node output of the tree.  For the nested
    graphs of a source built through the public API both follow from C01 (a value is owned by at most one graph;
    inputs and initializers have no producer); for the view itself it says that no boundary value is listed by
    a nested graph of a kept node and no boundary input is produced by a kept node. -/
def ownStaticB (t : GraphT) : Bool :=
  disjFamB (postG t) && (insInitsG t).all (fun v => !(outsAllG t).contains v)

/-- `extract` as the code runs it: the same pipeline with the clone stage that also performs the ownership
    checks of the `Graph(...)` constructors (`cloneGO`).  `extract` above is this function without those checks
    (`C18_extract_owned`: same result whenever this one returns, same error unless this one raises `cloneOwned`). -/
def extractO (W : World) (T : Target) (ins outs : List Arg) : Except Err View :=
  let m := valueMapping W T
  match checkArgs W T m (ins ++ outs) with
  | .error e => .error e
  | .ok () =>
    let inputVals := ins.map (resolveArg m)
    let outputVals := outs.map (resolveArg m)
    match outputVals with
    | [] => .error .noOutputs
    | o0 :: _ =>
      match W.graphOf o0 with
      | none => .error .noParent
      | some parent =>
        match findSubgraph W (T.kind == Kind.function) T.nodes inputVals outputVals parent with
        | .error e => .error e
        | .ok (nodes, inited) =>
          match viewInits W inited [] with
          | .error e => .error e
          | .ok im =>
            let inits := im.map (·.2)
            match cloneGO {} (.mk 0 inputVals inits outputVals (nodes.map W.nodeD)) with
            | .error e => .error e
            | .ok _ => .ok { inputs := inputVals, outputs := outputVals, nodes := nodes, inits := inits }

/-! ## D460: the argument check after the proposed fix (`proposed_fixes/D460.diff`)

The repository refuses a boundary value given BY OBJECT unless `val.graph is graph`, while the same value given
by name is accepted when a node of the graph reads it (`create_value_mapping` lists node inputs).  The proposed
fix also accepts a by-object boundary INPUT that a node of the graph reads directly.  `extractO` follows the
repository as it is; `extractOF` is the same pipeline with the fixed check, and the driver runs whichever the
harness observed on the real code (request field `d460`), so applying the fix needs no change here. -/

def checkArgF (W : World) (T : Target) (m : NameMap) (isIn : Bool) : Arg → Except Err Unit
  | .obj v =>
    if T.kind != Kind.view && W.graphOf v != T.gid &&
        !(isIn && (T.nodes.flatMap (fun n => (W.nodeD n).ins)).contains v) then .error .notOwned
    else .ok ()
  | .name s => if (m.lookup s).isSome then .ok () else .error .nameNotFound

def checkArgsF (W : World) (T : Target) (m : NameMap) (isIn : Bool) : List Arg → Except Err Unit
  | [] => .ok ()
  | a :: as =>
    match checkArgF W T m isIn a with
    | .error e => .error e
    | .ok () => checkArgsF W T m isIn as

/-- everything `extract` does after the argument checks (with the ownership checks of the clone) -/
def extractRest (W : World) (T : Target) (ins outs : List Arg) : Except Err View :=
  let m := valueMapping W T
  let inputVals := ins.map (resolveArg m)
  let outputVals := outs.map (resolveArg m)
  match outputVals with
  | [] => .error .noOutputs
  | o0 :: _ =>
    match W.graphOf o0 with
    | none => .error .noParent
    | some parent =>
      match findSubgraph W (T.kind == Kind.function) T.nodes inputVals outputVals parent with
      | .error e => .error e
      | .ok (nodes, inited) =>
        match viewInits W inited [] with
        | .error e => .error e
        | .ok im =>
          let inits := im.map (·.2)
          match cloneGO {} (.mk 0 inputVals inits outputVals (nodes.map W.nodeD)) with
          | .error e => .error e
          | .ok _ => .ok { inputs := inputVals, outputs := outputVals, nodes := nodes, inits := inits }

/-- `extract` after D460.diff -/
def extractOF (W : World) (T : Target) (ins outs : List Arg) : Except Err View :=
  let m := valueMapping W T
  match checkArgsF W T m true ins with
  | .error e => .error e
  | .ok () =>
    match checkArgsF W T m false outs with
    | .error e => .error e
    | .ok () => extractRest W T ins outs

/-- extractor, post-processing of the clone (D153): the boundary inputs whose producer is an extracted node.
    The clone produces them a second time; their consumers are rewired to the graph input and the recomputed
    output is renamed, so in the extracted graph these values are never overwritten. -/
def rewired (W : World) (v : View) : List VId :=
  v.inputs.filter (fun x => match W.prod x with
    | some n => v.nodes.contains n
    | none => false)

/-! ## structural measures and decidable hypothesis checkers

These are not transcriptions of repository code: they are the structural notions (independent of the
`.graph` / `producer()` back pointers) that the theorems of `Props/C18.lean` are stated against, in
executable form so that the driver can report, for every generated case, whether the hypotheses of the
theorems hold. -/

mutual
  /-- every value defined in the graph or in a graph nested in it: inputs, initializers, node outputs -/
  def defsG : GraphT → List VId
    | .mk _ ins inits _ ns => ins ++ inits ++ defsNs ns
  def defsNs : List NodeT → List VId
    | [] => []
    | n :: ns => defsN n ++ defsNs ns
  def defsN : NodeT → List VId
    | .mk _ outs bs => outs ++ defsGs bs
  def defsGs : List GraphT → List VId
    | [] => []
    | g :: gs => defsG g ++ defsGs gs
end

/-- outputs of the nodes of one node list (not descending into bodies) -/
def outsTop : List NodeT → List VId
  | [] => []
  | n :: ns => n.outputs ++ outsTop ns

mutual
  /-- lexical free variables: the values a graph reads from the environment of its enclosing scopes when it
      is evaluated (node inputs and graph outputs that are not bound by a graph input, an initializer or an
      earlier node of the same node list) -/
  def freeG : GraphT → List VId
    | .mk _ ins inits outs ns =>
      (freeNs ns ++ outs.filter (fun v => !(outsTop ns).contains v)).filter
        (fun v => !(ins ++ inits).contains v)
  def freeNs : List NodeT → List VId
    | [] => []
    | n :: ns => freeN n ++ (freeNs ns).filter (fun v => !n.outputs.contains v)
  def freeN : NodeT → List VId
    | .mk ins _ bs => ins.filterMap id ++ freeGs bs
  def freeGs : List GraphT → List VId
    | [] => []
    | g :: gs => freeG g ++ freeGs gs
end

mutual
  /-- every graph output, at every depth, is bound at the top level of its graph (ONNX: a graph output is
      produced in that graph; onnx.checker rejects anything else) -/
  def closedG : GraphT → Bool
    | .mk _ ins inits outs ns =>
      outs.all (fun v => (ins ++ inits ++ outsTop ns).contains v) && closedNs ns
  def closedNs : List NodeT → Bool
    | [] => true
    | n :: ns => closedN n && closedNs ns
  def closedN : NodeT → Bool
    | .mk _ _ bs => closedGs bs
  def closedGs : List GraphT → Bool
    | [] => true
    | g :: gs => closedG g && closedGs gs
end

/-- nothing defined inside the graph is read before it is bound -/
def wellScopedB (b : GraphT) : Bool := (freeG b).all (fun v => !(defsG b).contains v)

/-- the `.graph` back pointers agree with the structure on the subtree of `b`: a value is defined in `b` or
    deeper exactly when its owner is `b` or a graph nested in `b` (checked over the values of the world and
    the values the subtree defines) -/
def backPtrB (W : World) (b : GraphT) : Bool :=
  ((List.range W.vals.length) ++ defsG b).all (fun v =>
    (defsG b).contains v == ((gidsG b).map some).contains (W.graphOf v))

/-- hypotheses about the graphs nested in node `n` of the table, for a region of graph `p` -/
def bodiesOKB (W : World) (p : GId) (n : NId) : Bool :=
  (W.nodeD n).bodies.all (fun b =>
    closedG b && wellScopedB b && backPtrB W b && !(gidsG b).contains p)

def neededBy (W : World) (p : GId) (n : NId) : List VId :=
  (W.nodeD n).ins ++ captured W p (W.nodeD n)

def nodupB : List Nat → Bool
  | [] => true
  | x :: xs => !xs.contains x && nodupB xs

mutual
  /-- decidable hypothesis of `C18_clone_stage_C13`: no node output is already a key of the value map when its
      node is cloned (the map threaded as `cloneG` does) and a node lists an output once.  Where this fails the
      cloner binds a second clone for the key (the D153 shape: a boundary input that a kept node produces) and
      C13's scope walker makes no claim. -/
  def nrGB (m : List VId) : GraphT → Bool
    | .mk _ ins inits _ ns => nrNsB (m ++ ins ++ inits) ns
  def nrNsB (m : List VId) : List NodeT → Bool
    | [] => true
    | n :: ns =>
      nrNB m n && (match cloneN m n with
        | .ok m1 => nrNsB m1 ns
        | .error _ => true)
  def nrNB (m : List VId) : NodeT → Bool
    | .mk _ outs bs =>
      nrGsB m bs && nodupB outs && (match cloneGs m bs with
        | .ok m1 => outs.all (fun o => !m1.contains o)
        | .error _ => true)
  def nrGsB (m : List VId) : List GraphT → Bool
    | [] => true
    | b :: bs =>
      nrGB m b && (match cloneG m b with
        | .ok m1 => nrGsB m1 bs
        | .error _ => true)
end

def topoSortedB (W : World) (p : GId) : List NId → Bool
  | [] => true
  | n :: rest =>
    (neededBy W p n).all (fun u => (n :: rest).all (fun m => !(W.nodeD m).outputs.contains u)) &&
    topoSortedB W p rest

/-- the source node list is duplicate free, single assignment with consistent `producer()` pointers,
    topologically sorted with respect to what the nodes need, and produces no initializer -/
def sourceOKB (W : World) (p : GId) (g : List NId) : Bool :=
  nodupB g &&
  g.all (fun n => (W.nodeD n).outputs.all (fun o => W.prod o == some n)) &&
  (List.range W.vals.length).all (fun v => match W.prod v with
    | some n => (W.nodeD n).outputs.contains v
    | none => true) &&
  (List.range W.vals.length).all (fun v => !W.isInit v || g.all (fun n => !(W.nodeD n).outputs.contains v)) &&
  topoSortedB W p g

/-- no value visited by the walk (other than a boundary input) is defined inside a graph nested in a kept
    node: the scoping hypothesis of `C18_cover_of_clone` / `C18_extract_eval` -/
def scopeB (W : World) (fn : Bool) (I O : List VId) (p : GId) (ns : List NId) : Bool :=
  (walk W p (walkInit W fn I O)).valsV.all (fun u =>
    I.contains u || ns.all (fun n => (W.nodeD n).bodies.all (fun b => !(defsG b).contains u)))

/-- every initializer has a name (`GraphView.__init__` raises otherwise; cannot be violated through the public
    API since D07) -/
def initNamedB (W : World) : Bool :=
  (List.range W.vals.length).all (fun u => !W.isInit u || !((W.val u).name == ""))

/-- every required value is covered: a value the walk visits is a boundary input, has a producer, or is an
    initializer (decidable form of `Covered`) -/
def coveredB (W : World) (fn : Bool) (I O : List VId) (p : GId) : Bool :=
  (walk W p (walkInit W fn I O)).valsV.all (fun u => I.contains u || (W.prod u).isSome || W.isInit u)

/-- every required node is a node of the graph-like object -/
def neededInB (W : World) (fn : Bool) (g : List NId) (I O : List VId) (p : GId) : Bool :=
  (walk W p (walkInit W fn I O)).nodesV.all (fun n => g.contains n)

/-- initializer names are pairwise distinct -/
def initNamesB (W : World) : Bool :=
  (List.range W.vals.length).all (fun u => (List.range W.vals.length).all (fun u' =>
    !(W.isInit u && W.isInit u' && (W.val u).name == (W.val u').name) || u == u'))

/-- the hypotheses of `C18_extract_succeeds_iff` (decidable form of `RegionHyp`) -/
def regionHypB (W : World) (T : Target) (p : GId) (I O : List VId) : Bool :=
  sourceOKB W p T.nodes && T.nodes.all (bodiesOKB W p) &&
  scopeB W (T.kind == Kind.function) I O p (walk W p (walkInit W (T.kind == Kind.function) I O)).nodesV &&
  initNamedB W && initNamesB W

/-- the owner of `v` is one of the graphs on `chain` (the graph of the use and its ancestors below the
    analysed root), or it is none of the graphs `all` nested in the analysed root -/
def ownerOKB (W : World) (all chain : List GId) (v : VId) : Bool :=
  (chain.map some).contains (W.graphOf v) || !((all.map some).contains (W.graphOf v))

mutual
  /-- scoping of uses by owner, and graph ids that do not repeat along a path: every value read by a node is
      owned by the node's graph, by one of its ancestors, or by a graph outside the analysed root; the ids of
      a graph and of the graphs nested in it differ from the ids of its ancestors and are among `all` -/
  def scopedGB (W : World) (all : List GId) : List GId → GraphT → Bool
    | chain, .mk gid _ _ _ ns =>
      (gid :: gidsNs ns).all (fun j => !chain.contains j && all.contains j) &&
      scopedNsB W all (gid :: chain) ns
  def scopedNsB (W : World) (all : List GId) : List GId → List NodeT → Bool
    | _, [] => true
    | chain, n :: ns => scopedNB W all chain n && scopedNsB W all chain ns
  def scopedNB (W : World) (all : List GId) : List GId → NodeT → Bool
    | chain, .mk ins _ bs => (ins.filterMap id).all (ownerOKB W all chain) && scopedGsB W all chain bs
  def scopedGsB (W : World) (all : List GId) : List GId → List GraphT → Bool
    | _, [] => true
    | chain, g :: gs => scopedGB W all chain g && scopedGsB W all chain gs
end

mutual
  /-- the graph and every graph nested in it at any depth, in traversal order -/
  def subsG : GraphT → List GraphT
    | .mk gid i w o ns => (.mk gid i w o ns) :: subsNs ns
  def subsNs : List NodeT → List GraphT
    | [] => []
    | n :: ns => subsN n ++ subsNs ns
  def subsN : NodeT → List GraphT
    | .mk _ _ bs => subsGs bs
  def subsGs : List GraphT → List GraphT
    | [] => []
    | g :: gs => subsG g ++ subsGs gs
end

/-- distinct nested graphs of the analysed root carry distinct identities (in Python: they are distinct
    objects; a graph object held by two attributes would occur twice here) -/
def uniqueGidsB (ns : List NodeT) : Bool := nodupB ((subsNs ns).map GraphT.gid)

/-! ## `analyze_implicit_usage` (analysis/_implicit_usage.py 14-74, with the D34 fix) -/

/-- `implicit_usages`: dict graph -> set of values, in insertion order -/
abbrev Usages := List (GId × List VId)

def Usages.addKey (u : Usages) (g : GId) : Usages :=
  if u.any (fun kv => kv.1 == g) then u else u ++ [(g, [])]

def Usages.add (u : Usages) (g : GId) (v : VId) : Usages :=
  u.map (fun kv => if kv.1 == g then (kv.1, addSet kv.2 v) else kv)

def Usages.get (u : Usages) (g : GId) : List VId := (u.lookup g).getD []

/-- lines 45-48: `for g in reversed(graph_stack[1:]): if g is inp.graph: break; implicit_usages[g].add(inp)`;
    the argument is `reversed(graph_stack[1:])` -/
def addChain (W : World) (v : VId) : List GId → Usages → Usages
  | [], u => u
  | g :: gs, u => if W.graphOf v == some g then u else addChain W v gs (u.add g v)

/-- `_collect_implicit_usages` 35-48; `stack` has the innermost graph first and the analysed root last -/
def collectNode (W : World) (sub : GId) (stack : List GId) (n : NodeT) (u : Usages) : Usages :=
  n.ins.foldl (fun u v => if W.graphOf v == some sub then u else addChain W v stack.dropLast u) u

mutual
  /-- `_process_node` 51-74 -/
  def procN (W : World) (stack : List GId) (u : Usages) : NodeT → Usages
    | .mk _ _ bs => procGs W stack u bs
  def procGs (W : World) (stack : List GId) (u : Usages) : List GraphT → Usages
    | [] => u
    | b :: bs => procGs W stack (procG W stack u b) bs
  /-- one graph attribute: push, create the key, visit the nodes, pop -/
  def procG (W : World) (stack : List GId) (u : Usages) : GraphT → Usages
    | .mk gid _ _ _ ns => procNs W gid (gid :: stack) (u.addKey gid) ns
  def procNs (W : World) (sub : GId) (stack : List GId) (u : Usages) : List NodeT → Usages
    | [] => u
    | n :: ns => procNs W sub stack (procN W stack (collectNode W sub stack n u) n) ns
end

/-- `analyze_implicit_usage(graph)` -/
def analyze (W : World) (g : GraphT) : Usages :=
  g.nodes.foldl (fun u n => procN W [g.gid] u n) []

/-- `analyze_implicit_usage(x)` for any iterable of nodes `x` (a `Graph`, or a `Function`: `for node in
    graph` only iterates, and `graph_stack[0]`, the object itself, is never compared with anything because
    line 46 walks `graph_stack[1:]`); `root` stands for the identity of that object -/
def analyzeNodes (W : World) (root : GId) (ns : List NodeT) : Usages :=
  ns.foldl (fun u n => procN W [root] u n) []

/-! ## graph-valued attributes as the code reads them (extractor 88-102, analysis 58-79)

`node.attributes.values()` in order; a reference attribute (`RefAttr`, also of type GRAPH / GRAPHS) has no
value and is skipped (D152); `GRAPH` contributes `as_graph()`, `GRAPHS` every graph of `as_graphs()`; any
other attribute type contributes nothing.  `NodeT.bodies` is the result of this reading. -/
inductive AttrT where
  | ref                          -- `attr.is_ref()`, whatever its declared type
  | graph (g : GraphT)           -- AttributeType.GRAPH
  | graphs (gs : List GraphT)    -- AttributeType.GRAPHS
  | other                        -- any other attribute type

def attrBodies : List AttrT → List GraphT
  | [] => []
  | .ref :: as => attrBodies as
  | .graph g :: as => g :: attrBodies as
  | .graphs gs :: as => gs ++ attrBodies as
  | .other :: as => attrBodies as

/-- `_process_node` 58-79 on the attribute list, branch by branch -/
def procAttrs (W : World) (stack : List GId) (u : Usages) : List AttrT → Usages
  | [] => u
  | .ref :: as => procAttrs W stack u as
  | .graph g :: as => procAttrs W stack (procG W stack u g) as
  | .graphs gs :: as => procAttrs W stack (procGs W stack u gs) as
  | .other :: as => procAttrs W stack u as

/-- extractor 88-102 on the attribute list: the captured values of every graph attribute, branch by branch -/
def capturedAttrs (W : World) (parent : GId) : List AttrT → List VId
  | [] => []
  | .ref :: as => capturedAttrs W parent as
  | .graph g :: as => externalValues W parent g ++ capturedAttrs W parent as
  | .graphs gs :: as => gs.flatMap (externalValues W parent) ++ capturedAttrs W parent as
  | .other :: as => capturedAttrs W parent as

end IrVerif.Extract

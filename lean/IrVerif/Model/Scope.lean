/-
Model of the name-resolution algorithm of deserialization and of serialization's name
derivation (`src/onnx_ir/serde.py`), over a small abstract IR.

Python anchors (onnx/ir-py, `src/onnx_ir/serde.py`):
* `_deserialize_graph`        763-886   (scope stack, inputs, initializers, declare, nodes, outputs)
* `_declare_node_outputs`     889-935   (all node outputs of a scope are declared before any
                                          input is resolved; a redeclared name raises)
* `deserialize_function`      938-990
* `_deserialize_node`         1308-1414 (innermost-first lookup, placeholder values)
* `serialize_graph_into`      1855-1903, `serialize_function_into` 1926-1987,
  `serialize_node_into` 2021-2055, `_remove_trailing_outputs` 2004-2018,
  `_should_create_value_info_for_value` 1699-1719
* `_core.Node.__init__` 2149-2179 (producer, index, uses), `_core.Graph.__init__` 3551-3582 and
  `_graph_containers` (`_set_graph` of inputs, outputs, initializers).

What is abstracted.  A `ValueInfoProto` is its name plus an `Info`: three opaque optional tokens for
the type, the shape and the documentation (doc_string + metadata_props); a `TensorProto` is its name,
an opaque payload token `data` and the tokens `ty` / `sh` of the `TensorType(dtype)` / `Shape(dims)`
that `_deserialize_graph` gives to a fresh initializer value.  A node keeps its input names, output names
and the graphs of its GRAPH / GRAPHS attributes in attribute order.  Not modelled: operator identity,
non-graph attributes, metadata_props (merge semantics), quantization annotations, device
configurations, the name authority (it never renames here because every name is a `str`).
Constructor checks of `_core.Node` / `_core.Graph` that cannot fire during deserialization (output
already has a producer, value owned by another graph, node owned by another graph) are not
transcribed as error paths; `C17_consistent` proves the facts that make them unreachable and the
correspondence check would report a raise of the real code as a disagreement.

Object stores are functions `Nat → cell` plus an allocation counter (identity = creation index).
The graph / node nesting of the IR is a tree (`GraphT` / `NodeT`): a `Graph` object shared between
two attributes or nested in itself is outside the model.
Only core Lean is imported (the file is linked into the `irdriver` executable).
-/
namespace IrVerif.Scope

abbrev Name := String

/-! ## Proto side -/

/-- what a `ValueInfoProto` / a `Value` knows besides its name: type, shape, documentation
    (doc_string and metadata_props) as opaque tokens; `none` = absent. -/
structure Info where
  ty : Option String := none
  sh : Option String := none
  doc : Option String := none
deriving DecidableEq, Repr, Inhabited

/-- `serialize_value_into` 2309-2315: the type is written when present, the shape only into an
    existing type (`serialize_shape_into` returns when the TypeProto has no value field), the
    documentation when present. -/
def Info.emit (i : Info) : Info := { i with sh := if i.ty.isSome then i.sh else none }

/-- `_should_create_value_info_for_value` 1709-1716: something other than a bare shape is set -/
def Info.present (i : Info) : Bool := i.ty.isSome || i.doc.isSome

/-- 830-837: `deserialize_value_info_proto(value_info[name], initializer_value)` overwrites type,
    shape and documentation; a type / shape it leaves `None` is restored from the tensor. -/
def Info.orTensor (i t : Info) : Info :=
  { ty := if i.ty.isSome then i.ty else t.ty, sh := if i.sh.isSome then i.sh else t.sh, doc := i.doc }

/-- `ValueInfoProto` -/
structure VInfoP where
  name : Name
  info : Info
deriving DecidableEq, Repr, Inhabited

/-- `TensorProto`: name, payload token, tokens of `TensorType(dtype)` and `Shape(dims)`. -/
structure TensorP where
  name : Name
  data : String
  ty : String
  sh : String
deriving DecidableEq, Repr, Inhabited

/-- 826-827: `type=TensorType(tensor.dtype), shape=tensor.shape` -/
def tensorInfo (ty sh : String) : Info := { ty := some ty, sh := some sh }

mutual
/-- `NodeProto`: input names, output names, graphs of the GRAPH / GRAPHS attributes in order. -/
inductive NodeP where
  | mk (inputs : List Name) (outputs : List Name) (subs : List GraphP)
/-- `GraphProto`: input, initializer, value_info, node, output. -/
inductive GraphP where
  | mk (inputs : List VInfoP) (inits : List TensorP) (vinfo : List VInfoP) (nodes : List NodeP)
      (outputs : List VInfoP)
end

instance : Inhabited GraphP := ⟨.mk [] [] [] [] []⟩
instance : Inhabited NodeP := ⟨.mk [] [] []⟩

def NodeP.inputs : NodeP → List Name | .mk i _ _ => i
def NodeP.outputs : NodeP → List Name | .mk _ o _ => o
def NodeP.subs : NodeP → List GraphP | .mk _ _ s => s
def GraphP.inputs : GraphP → List VInfoP | .mk i _ _ _ _ => i
def GraphP.inits : GraphP → List TensorP | .mk _ t _ _ _ => t
def GraphP.vinfo : GraphP → List VInfoP | .mk _ _ v _ _ => v
def GraphP.nodes : GraphP → List NodeP | .mk _ _ _ n _ => n
def GraphP.outputs : GraphP → List VInfoP | .mk _ _ _ _ o => o

/-! ## IR side -/

/-- a tensor object (`TensorProtocol`): its own name, payload, derived type/shape token -/
structure TensorS where
  name : Option Name := none
  data : String := ""
  ty : String := ""
  sh : String := ""
deriving DecidableEq, Repr, Inhabited

/-- `_core.Value` (the slots that matter here) -/
structure ValueS where
  name : Option Name := none
  info : Info := {}
  const : Option Nat := none
  producer : Option Nat := none
  index : Option Nat := none
  uses : List (Nat × Nat) := []
  graph : Option Nat := none
  isIn : Bool := false
  isOut : Bool := false
  isInit : Bool := false
deriving DecidableEq, Repr, Inhabited

mutual
/-- `_core.Node`: creation index, owning graph, inputs (`none` = missing optional input), outputs,
    graphs held by its attributes. -/
inductive NodeT where
  | mk (id : Nat) (graph : Option Nat) (inputs : List (Option Nat)) (outputs : List Nat)
      (subs : List GraphT)
/-- `_core.Graph`: creation index, inputs, initializers (ordered dict name -> value), nodes in
    order, outputs. -/
inductive GraphT where
  | mk (id : Nat) (inputs : List Nat) (inits : List (Name × Nat)) (nodes : List NodeT)
      (outputs : List Nat)
end

instance : Inhabited GraphT := ⟨.mk 0 [] [] [] []⟩
instance : Inhabited NodeT := ⟨.mk 0 none [] [] []⟩

def NodeT.id : NodeT → Nat | .mk i _ _ _ _ => i
def NodeT.graph : NodeT → Option Nat | .mk _ g _ _ _ => g
def NodeT.inputs : NodeT → List (Option Nat) | .mk _ _ i _ _ => i
def NodeT.outputs : NodeT → List Nat | .mk _ _ _ o _ => o
def NodeT.subs : NodeT → List GraphT | .mk _ _ _ _ s => s
def NodeT.setGraph (g : Nat) : NodeT → NodeT | .mk i _ a b c => .mk i (some g) a b c
def GraphT.id : GraphT → Nat | .mk i _ _ _ _ => i
def GraphT.inputs : GraphT → List Nat | .mk _ i _ _ _ => i
def GraphT.inits : GraphT → List (Name × Nat) | .mk _ _ t _ _ => t
def GraphT.nodes : GraphT → List NodeT | .mk _ _ _ n _ => n
def GraphT.outputs : GraphT → List Nat | .mk _ _ _ _ o => o

/-- the object stores -/
structure Store where
  vals : Nat → ValueS := fun _ => {}
  nv : Nat := 0
  tens : Nat → TensorS := fun _ => {}
  nt : Nat := 0
  nn : Nat := 0
  ng : Nat := 0

instance : Inhabited Store := ⟨{}⟩

/-- `Value(...)` -/
def Store.alloc (st : Store) (c : ValueS) : Store × Nat :=
  ({ st with vals := fun i => if i = st.nv then c else st.vals i, nv := st.nv + 1 }, st.nv)

/-- attribute assignment on a value object -/
def Store.modify (st : Store) (v : Nat) (f : ValueS → ValueS) : Store :=
  { st with vals := fun i => if i = v then f (st.vals i) else st.vals i }

def Store.allocTensor (st : Store) (t : TensorS) : Store × Nat :=
  ({ st with tens := fun i => if i = st.nt then t else st.tens i, nt := st.nt + 1 }, st.nt)

def Store.setTensorName (st : Store) (t : Nat) (n : Option Name) : Store :=
  { st with tens := fun i => if i = t then { st.tens i with name := n } else st.tens i }

/-- a value scope: `dict[str, Value]`; newest binding first, lookup takes the first match
    (a later `d[k] = v` shadows, which is what reading a dict after an overwrite gives) -/
abbrev Table := List (Name × Nat)

/-- `_deserialize_node` 1324-1331: innermost scope first -/
def resolve (x : Name) : List Table → Option Nat
  | [] => none
  | t :: ts =>
    match t.lookup x with
    | some v => some v
    | none => resolve x ts

/-- `{info.name: info for info in proto.value_info}`: the last entry with a name wins -/
def vinfoTable (vi : List VInfoP) : List (Name × Info) :=
  (vi.map fun i => (i.name, i.info)).reverse

inductive Err where
  | redeclared (name : Name)
  | assertScope (name : Name)
  | keyError (name : Name)
deriving DecidableEq, Repr, Inhabited

/-! ## Deserialization -/

/-- 785-787: one `Value(name=info.name)` per graph input, then `deserialize_value_info_proto`
    on each (the two loops are fused: nothing observes the state between them). -/
def deserInputs (st : Store) : List VInfoP → Store × List Nat
  | [] => (st, [])
  | i :: is =>
    let (st1, v) := st.alloc { name := some i.name, info := i.info }
    let (st2, vs) := deserInputs st1 is
    (st2, v :: vs)

/-- 794: `{v.name: v for v in inputs}` -/
def inputTable (is : List VInfoP) (vs : List Nat) : Table :=
  ((is.map (·.name)).zip vs).reverse

/-- 819-837: the value of an initializer that is not a graph input: type and shape from the tensor
    `tid`, then the value_info entry of that name if there is one; the new id is `st.nv`. -/
def newInit (st : Store) (vi : List (Name × Info)) (t : TensorP) (tid : Nat) : Store :=
  match vi.lookup t.name with
  | some i =>
    (st.alloc { name := some t.name, info := tensorInfo t.ty t.sh, const := some tid }).1.modify st.nv
      fun c => { c with info := i.orTensor (tensorInfo t.ty t.sh) }
  | none => (st.alloc { name := some t.name, info := tensorInfo t.ty t.sh, const := some tid }).1

/-- 803-837: initializers.  Returns the store, the scope and `initializer_values`. -/
def deserInits (st : Store) (tbl : Table) (vi : List (Name × Info)) :
    List TensorP → Store × Table × List Nat
  | [] => (st, tbl, [])
  | t :: ts =>
    if t.name = "" then deserInits st tbl vi ts
    else
      let st1 := (st.allocTensor { name := some t.name, data := t.data, ty := t.ty, sh := t.sh }).1
      match tbl.lookup t.name with
      | some v =>
        let (st3, tbl3, vs) := deserInits (st1.modify v fun c => { c with const := some st.nt }) tbl vi ts
        (st3, tbl3, v :: vs)
      | none =>
        let (st4, tbl4, vs) := deserInits (newInit st1 vi t st.nt) ((t.name, st.nv) :: tbl) vi ts
        (st4, tbl4, st.nv :: vs)

/-- `Value(name=x)`, then `deserialize_value_info_proto(value_info[x], value)` when `x` has a
    value_info entry (922-926 for a declared output, 1352-1355 for a placeholder); the new id is
    `st.nv`. -/
def newNamed (st : Store) (vi : List (Name × Info)) (x : Name) : Store :=
  match vi.lookup x with
  | some i => (st.alloc { name := some x }).1.modify st.nv fun c => { c with info := i }
  | none => (st.alloc { name := some x }).1

/-- `_declare_node_outputs` 910-935 for one node -/
def declareOutputs (st : Store) (tbl : Table) (vi : List (Name × Info)) :
    List Name → Except Err (Store × Table)
  | [] => .ok (st, tbl)
  | x :: xs =>
    if x = "" then declareOutputs st tbl vi xs
    else
      match tbl.lookup x with
      | some _ => .error (.redeclared x)
      | none => declareOutputs (newNamed st vi x) ((x, st.nv) :: tbl) vi xs

/-- 843-849 -/
def declareNodes (st : Store) (tbl : Table) (vi : List (Name × Info)) :
    List NodeP → Except Err (Store × Table)
  | [] => .ok (st, tbl)
  | n :: ns =>
    match declareOutputs st tbl vi n.outputs with
    | .error e => .error e
    | .ok (st1, tbl1) => declareNodes st1 tbl1 vi ns

/-- `_deserialize_node` 1315-1364: resolve the inputs; unknown names become placeholder values in
    the current (innermost) scope. -/
def resolveInputs (st : Store) (top : Table) (outer : List Table)
    (vi : List (Name × Info)) : List Name → Store × Table × List (Option Nat)
  | [] => (st, top, [])
  | x :: xs =>
    if x = "" then
      let (st1, top1, vs) := resolveInputs st top outer vi xs
      (st1, top1, none :: vs)
    else
      match resolve x (top :: outer) with
      | some v =>
        let (st1, top1, vs) := resolveInputs st top outer vi xs
        (st1, top1, some v :: vs)
      | none =>
        let (st3, top3, vs) := resolveInputs (newNamed st vi x) ((x, st.nv) :: top) outer vi xs
        (st3, top3, some st.nv :: vs)

/-- `_deserialize_node` 1367-1390: output values; `""` gives a fresh `Value(name="")`, every other
    name must already be declared in the current scope (the `assert`). -/
def lookupOutputs (st : Store) (top : Table) : List Name → Except Err (Store × List Nat)
  | [] => .ok (st, [])
  | x :: xs =>
    if x = "" then
      let (st1, v) := st.alloc { name := some "" }
      match lookupOutputs st1 top xs with
      | .error e => .error e
      | .ok (st2, vs) => .ok (st2, v :: vs)
    else
      match top.lookup x with
      | none => .error (.assertScope x)
      | some v =>
        match lookupOutputs st top xs with
        | .error e => .error e
        | .ok (st1, vs) => .ok (st1, v :: vs)

/-- `Node._create_outputs` 2215-2220: `output._producer = self; output._index = i` -/
def setProducers (st : Store) (nid : Nat) : Nat → List Nat → Store
  | _, [] => st
  | i, v :: vs =>
    setProducers (st.modify v fun c => { c with producer := some nid, index := some i }) nid (i + 1) vs

/-- `Node.__init__` 2177-2179: `input_value._add_usage(self, i)` -/
def addUses (st : Store) (nid : Nat) : Nat → List (Option Nat) → Store
  | _, [] => st
  | i, none :: vs => addUses st nid (i + 1) vs
  | i, some v :: vs =>
    addUses (st.modify v fun c => { c with uses := c.uses ++ [(nid, i)] }) nid (i + 1) vs

/-- `_core.Node(...)` with `outputs=` given -/
def mkNode (st : Store) (inputs : List (Option Nat)) (outputs : List Nat) (subs : List GraphT) :
    Store × NodeT :=
  let nid := st.nn
  let st1 := setProducers st nid 0 outputs
  let st2 := addUses st1 nid 0 inputs
  ({ st2 with nn := nid + 1 }, .mk nid none inputs outputs subs)

/-- `_GraphIO.__init__`: `_set_graph` on every listed value -/
def setOwner (st : Store) (gid : Nat) (f : ValueS → ValueS) : List Nat → Store
  | [] => st
  | v :: vs => setOwner (st.modify v fun c => { f c with graph := some gid }) gid f vs

/-- `{initializer.name: initializer for initializer in initializers}`: first position, last value -/
def dictInsert (d : List (Name × Nat)) (k : Name) (v : Nat) : List (Name × Nat) :=
  match d with
  | [] => [(k, v)]
  | (k', v') :: r => if k' = k then (k', v) :: r else (k', v') :: dictInsert r k v

def initDict (st : Store) (d : List (Name × Nat)) : List Nat → List (Name × Nat)
  | [] => d
  | v :: vs => initDict st (dictInsert d ((st.vals v).name.getD "") v) vs

/-- `_core.Graph(inputs, outputs, nodes=, initializers=)` 3563-3582: inputs, outputs, initializers
    take ownership in this order, then every node gets `node.graph = self`. -/
def mkGraph (st : Store) (inputs : List Nat) (outputs : List Nat) (nodes : List NodeT)
    (initVals : List Nat) : Store × GraphT :=
  let gid := st.ng
  let st1 := setOwner st gid (fun c => { c with isIn := true }) inputs
  let st2 := setOwner st1 gid (fun c => { c with isOut := true }) outputs
  let d := initDict st2 [] initVals
  let st3 := setOwner st2 gid (fun c => { c with isInit := true }) (d.map (·.2))
  ({ st3 with ng := gid + 1 }, .mk gid inputs d (nodes.map (NodeT.setGraph gid)) outputs)

/-- 857-873: graph outputs.  A name that is not in the current scope gets a fresh value which is
    NOT entered into the scope; then `deserialize_value_info_proto(info, value)`. -/
def deserOutputs (st : Store) (tbl : Table) : List VInfoP → Store × List Nat
  | [] => (st, [])
  | o :: os =>
    match tbl.lookup o.name with
    | some v =>
      let st1 := st.modify v fun c => { c with info := o.info }
      let (st2, vs) := deserOutputs st1 tbl os
      (st2, v :: vs)
    | none =>
      let (st1, v) := st.alloc { name := some o.name, info := o.info }
      let (st2, vs) := deserOutputs st1 tbl os
      (st2, v :: vs)

mutual
/-- `_deserialize_graph(proto, scoped_values)`; `outer` is the scope stack, innermost first. -/
def deserGraph (st : Store) (outer : List Table) : GraphP → Except Err (Store × GraphT)
  | .mk inputs inits vinfo nodes outputs =>
    let (st1, ins) := deserInputs st inputs
    let tbl1 := inputTable inputs ins
    let vi := vinfoTable vinfo
    let (st2, tbl2, initVals) := deserInits st1 tbl1 vi inits
    match declareNodes st2 tbl2 vi nodes with
    | .error e => .error e
    | .ok (st3, tbl3) =>
      match deserNodes st3 tbl3 outer vi nodes with
      | .error e => .error e
      | .ok (st4, tbl4, ns) =>
        let (st5, outs) := deserOutputs st4 tbl4 outputs
        .ok (mkGraph st5 ins outs ns initVals)
/-- 852-855: the nodes of one graph, in order; the current scope `top` may grow (placeholders). -/
def deserNodes (st : Store) (top : Table) (outer : List Table) (vi : List (Name × Info)) :
    List NodeP → Except Err (Store × Table × List NodeT)
  | [] => .ok (st, top, [])
  | n :: ns =>
    match deserNode st top outer vi n with
    | .error e => .error e
    | .ok (st1, top1, nt) =>
      match deserNodes st1 top1 outer vi ns with
      | .error e => .error e
      | .ok (st2, top2, nts) => .ok (st2, top2, nt :: nts)
/-- `_deserialize_node` -/
def deserNode (st : Store) (top : Table) (outer : List Table) (vi : List (Name × Info)) :
    NodeP → Except Err (Store × Table × NodeT)
  | .mk inputs outputs subs =>
    let (st1, top1, ins) := resolveInputs st top outer vi inputs
    match lookupOutputs st1 top1 outputs with
    | .error e => .error e
    | .ok (st2, outs) =>
      match deserSubs st2 (top1 :: outer) subs with
      | .error e => .error e
      | .ok (st3, gs) =>
        let (st4, nt) := mkNode st3 ins outs gs
        .ok (st4, top1, nt)
/-- the GRAPH / GRAPHS attributes of one node, in order (1406) -/
def deserSubs (st : Store) (scopes : List Table) : List GraphP → Except Err (Store × List GraphT)
  | [] => .ok (st, [])
  | g :: gs =>
    match deserGraph st scopes g with
    | .error e => .error e
    | .ok (st1, gt) =>
      match deserSubs st1 scopes gs with
      | .error e => .error e
      | .ok (st2, gts) => .ok (st2, gt :: gts)
end

/-- an IR model: stores + the main graph -/
structure World where
  st : Store
  root : GraphT

/-- `deserialize_graph(proto)` = `_deserialize_graph(proto, [])` on an empty heap -/
def deserialize (p : GraphP) : Except Err World :=
  match deserGraph {} [] p with
  | .error e => .error e
  | .ok (st, g) => .ok ⟨st, g⟩

/-! ## Serialization

Serialization only reads the IR, with one exception: `value.const_value.name = value.name` for every
initializer that has a tensor (1883).  The serializer is therefore written as a function of the value
store and of the name-independent part of the tensor store (`TData`), returning the proto together
with the LOG of tensor-name writes in program order; `serialize` replays the log on the tensor store.
(The `TensorProto` written at 1884 takes its name from the tensor object, i.e. the name just
assigned.) -/

inductive SErr where
  | nameNone
deriving DecidableEq, Repr, Inhabited

/-- the part of a tensor object that serialization reads besides the name it has just written -/
abbrev TData := Nat → String × String × String

def Store.tdata (st : Store) : TData := fun t => ((st.tens t).data, (st.tens t).ty, (st.tens t).sh)

/-- a log of `tensor.name = n` assignments, oldest first -/
abbrev Writes := List (Nat × Option Name)

def applyWrites : Writes → (Nat → TensorS) → (Nat → TensorS)
  | [], f => f
  | (t, n) :: ws, f => applyWrites ws fun i => if i = t then { f i with name := n } else f i

def Store.writes (st : Store) (ws : Writes) : Store := { st with tens := applyWrites ws st.tens }

def nameTruthy (o : Option Name) : Bool :=
  match o with | some n => n != "" | none => false

/-- `_should_create_value_info_for_value` -/
def shouldCreate (c : ValueS) : Bool := c.info.present && nameTruthy c.name

/-- `serialize_value_into`: `value_info_proto.name = from_.name` raises on `None` -/
def serValue (c : ValueS) : Except SErr VInfoP :=
  match c.name with
  | none => .error .nameNone
  | some n => .ok ⟨n, c.info.emit⟩

def serValues (vals : Nat → ValueS) : List Nat → Except SErr (List VInfoP)
  | [] => .ok []
  | v :: vs =>
    match serValue (vals v) with
    | .error e => .error e
    | .ok p =>
      match serValues vals vs with
      | .error e => .error e
      | .ok ps => .ok (p :: ps)

/-- `serialize_node_into` 2040-2044 -/
def serInputs (vals : Nat → ValueS) : List (Option Nat) → Except SErr (List Name)
  | [] => .ok []
  | none :: vs =>
    match serInputs vals vs with
    | .error e => .error e
    | .ok ns => .ok ("" :: ns)
  | some v :: vs =>
    match (vals v).name with
    | none => .error .nameNone
    | some n =>
      match serInputs vals vs with
      | .error e => .error e
      | .ok ns => .ok (n :: ns)

/-- `_remove_trailing_outputs` 2015-2018 -/
def stripTrailing (vals : Nat → ValueS) : List Nat → List Nat
  | [] => []
  | v :: vs =>
    match stripTrailing vals vs with
    | [] => if nameTruthy (vals v).name then [v] else []
    | r => v :: r

/-- 2047-2048: `node_proto.output.append(output.name)` raises on `None` -/
def serOutNames (vals : Nat → ValueS) : List Nat → Except SErr (List Name)
  | [] => .ok []
  | v :: vs =>
    match (vals v).name with
    | none => .error .nameNone
    | some n =>
      match serOutNames vals vs with
      | .error e => .error e
      | .ok ns => .ok (n :: ns)

/-- 1915-1930: value_info for node outputs that are not among the outputs `gouts` of the graph being
    serialized (`graph_outputs = frozenset(from_.outputs)`; membership, not `is_graph_output()`) -/
def outVInfo (vals : Nat → ValueS) (gouts : List Nat) : List Nat → List VInfoP
  | [] => []
  | v :: vs =>
    let c := vals v
    if !gouts.contains v && shouldCreate c then ⟨c.name.getD "", c.info.emit⟩ :: outVInfo vals gouts vs
    else outVInfo vals gouts vs

/-- 1872-1884: the initializer loop: value_info entries, initializer tensors, name writes. -/
def serInits (vals : Nat → ValueS) (td : TData) (inputNames : List (Option Name)) :
    List (Name × Nat) → List VInfoP × List TensorP × Writes
  | [] => ([], [], [])
  | (_, v) :: r =>
    let c := vals v
    let vi := if shouldCreate c && !(inputNames.contains c.name) then [⟨c.name.getD "", c.info.emit⟩] else []
    let (vis, ts, ws) := serInits vals td inputNames r
    match c.const with
    | none => (vi ++ vis, ts, ws)
    | some t => (vi ++ vis, ⟨c.name.getD "", (td t).1, (td t).2.1, (td t).2.2⟩ :: ts, (t, c.name) :: ws)

mutual
/-- `serialize_graph_into` -/
def serGraph (vals : Nat → ValueS) (td : TData) : GraphT → Except SErr (GraphP × Writes)
  | .mk _ inputs inits nodes outputs =>
    match serValues vals inputs with
    | .error e => .error e
    | .ok insP =>
      let inputNames := inputs.map fun v => (vals v).name
      let (vis1, tps, ws1) := serInits vals td inputNames inits
      match serNodes vals td outputs nodes with
      | .error e => .error e
      | .ok (nps, vis2, ws2) =>
        match serValues vals outputs with
        | .error e => .error e
        | .ok outsP => .ok (.mk insP tps (vis1 ++ vis2) nps outsP, ws1 ++ ws2)
/-- 1885-1898 -/
def serNodes (vals : Nat → ValueS) (td : TData) (gouts : List Nat) :
    List NodeT → Except SErr (List NodeP × List VInfoP × Writes)
  | [] => .ok ([], [], [])
  | n :: ns =>
    match serNode vals td gouts n with
    | .error e => .error e
    | .ok (np, vi, ws1) =>
      match serNodes vals td gouts ns with
      | .error e => .error e
      | .ok (nps, vis, ws2) => .ok (np :: nps, vi ++ vis, ws1 ++ ws2)
/-- `serialize_node_into` + the value_info of its outputs -/
def serNode (vals : Nat → ValueS) (td : TData) (gouts : List Nat) :
    NodeT → Except SErr (NodeP × List VInfoP × Writes)
  | .mk _ _ inputs outputs subs =>
    match serInputs vals inputs with
    | .error e => .error e
    | .ok ins =>
      match serOutNames vals (stripTrailing vals outputs) with
      | .error e => .error e
      | .ok outs =>
        match serSubs vals td subs with
        | .error e => .error e
        | .ok (gps, ws) => .ok (.mk ins outs gps, outVInfo vals gouts outputs, ws)
def serSubs (vals : Nat → ValueS) (td : TData) : List GraphT → Except SErr (List GraphP × Writes)
  | [] => .ok ([], [])
  | g :: gs =>
    match serGraph vals td g with
    | .error e => .error e
    | .ok (gp, ws1) =>
      match serSubs vals td gs with
      | .error e => .error e
      | .ok (gps, ws2) => .ok (gp :: gps, ws1 ++ ws2)
end

/-- `serialize_graph(model.graph)`: the IR afterwards and the proto -/
def serialize (w : World) : Except SErr (World × GraphP) :=
  match serGraph w.st.vals w.st.tdata w.root with
  | .error e => .error e
  | .ok (p, ws) => .ok (⟨w.st.writes ws, w.root⟩, p)

end IrVerif.Scope

import IrVerif.Model.AtomicSaveLinks
/-!
# C08, second deepening round: concurrent shard drivers, interleaved effect by effect

`_write_external_tensors` (external_data.py 874-911) runs the shard saves in a thread pool:
`executor.submit(convert_tensors_to_external, ...)` per shard, `with ThreadPoolExecutor(...)` waits for
all of them (also for the queued ones when one failed), `shard_future.result()` re-raises the first
failure in shard order.  Each shard save is `_write_external_data` (426-513): its own
`tempfile.mkdtemp(dir=<directory of its destination>, prefix=".<its basename>.")`, its own temporary
file, its own handles; `os.replace` onto its own destination; `finally:` `os.remove`, `os.rmdir`.

Here the shard saves are *processes* that are interleaved at the granularity of single file-system
effects: a schedule is a list of picks `(k, fault)` — shard driver `k` performs its next effect, which
succeeds (`none`) or fails (`some p`: after `p` bytes if it is a write) — and the exception handlers of
that driver run as its later picks.  Every prefix of a schedule is a crash point.

State: the *shared* world `sh` is what every thread sees under the caller's names (the directory the
shard files go to: names -> inodes -> bytes, mode); each driver has a *private* world `loc` (an `St` of
`Model/AtomicSave.lean` in which only the temporary directory, the temporary file and the handles are
used).  That a driver's temporary directory is private to it is the `mkdtemp` contract (a fresh name
per call; the harness checks freshness, parent directory and prefix of every call) plus the fact that
`temporary_dir`/`temporary_path` are local variables of `_write_external_data` (the harness's shim
flags every file-system call whose argument is not the caller's own temporary path or destination).
The inode number of a temporary file is a name local to its driver; `os.replace` *publishes* it:
the file becomes reachable under the destination name in the shared world (a fresh shared inode number
carrying the bytes and mode the temporary file has at that moment).

A shard's `try` body is a list of writer effects (`Eff.isWriter`): for a shard written serially it is
`serialBody` (`open, [cb,] seek, write.., close` — the `tryBody` of the sequential model on a directory
in which the destination does not exist: no tensor is overwritten, no `copymode`; `tryBody_fresh` in
`Lemmas/AtomicSaveConc.lean`), for a shard with an inner parallel writer it is the inner workers' effect
order (as for `saveWriter`).  The invalidation loop is empty (503-513: `overwritten_tensors` is empty
because the pre-flight 852 made sure that no destination exists).

Core Lean only (linked into the driver).
-/
namespace IrVerif.AtomicSave

/-- The writer's effects: what happens between `mkdtemp` and the release loop (`getWriterEff` of the
driver accepts exactly these). -/
def Eff.isWriter : Eff → Bool
  | .openTmp | .callback _ | .seek _ | .write _ | .closeTmp | .truncate _ | .openW _ | .seekW _ _
  | .writeW _ _ | .closeW _ => true
  | _ => false

/-- One shard: destination (resolved name) and the effects of its writer. -/
structure Job where
  dest : String
  body : List Eff
  deriving Repr

/-- Program counter of one shard driver (`_write_external_data` 467-501). -/
inductive PC where
  /-- about to call `tempfile.mkdtemp` (467; outside the `try`) -/
  | init
  /-- inside the `try`: the effects still to perform; `[]` = `os.replace` is next (496) -/
  | body (rest : List Eff)
  /-- `finally:` about to call `os.remove(temporary_path)` 498-499; `exc` = an exception is in flight -/
  | fin1 (exc : Bool)
  /-- about to call `os.rmdir(temporary_dir)` 500-501 -/
  | fin2 (exc : Bool)
  /-- the shard save returned (`false`) or raised (`true`) -/
  | done (raised : Bool)
  deriving Repr, DecidableEq

structure Proc where
  job : Job
  pc : PC
  /-- private world: temporary directory, temporary file, handles -/
  loc : St

/-- Concurrent state: the shared directory and the shard drivers. -/
structure CSt where
  sh : St
  procs : Nat → Proc

/-- An empty world: no file, no directory, no handle. -/
def emptyFS : FS := ⟨fun _ => none, fun _ => false, fun _ => [], fun _ => 0, 0⟩

def emptySt : St := ⟨emptyFS, none, 0, fun _ => true, fun _ => none, fun _ => none, false, fun _ => none⟩

/-- `os.replace(temporary_path, destination_path)` of a shard driver, 496: the temporary file becomes
the file the destination names (a fresh shared inode number with the temporary file's bytes and mode);
the temporary name is gone. -/
def publish (dest : String) (sh loc : St) : St × St :=
  match loc.fs.file .tmpFile with
  | some t =>
    ({ sh with
        fs := { sh.fs with
                file := upd sh.fs.file (.user dest) (some sh.fs.next)
                data := upd sh.fs.data sh.fs.next (loc.fs.data t)
                mode := upd sh.fs.mode sh.fs.next (loc.fs.mode t)
                next := sh.fs.next + 1 }
        replaced := true },
     { loc with fs := { loc.fs with file := upd loc.fs.file .tmpFile none }, replaced := true })
  | none => (sh, loc)

/-- The effect a driver performs next (`none`: it has finished). -/
def nextEff : PC → Option Eff
  | .init => some .mkdtemp
  | .body [] => some .replace
  | .body (e :: _) => some e
  | .fin1 _ => some .removeTmp
  | .fin2 _ => some .rmdirTmp
  | .done _ => none

/-- One step of a shard driver: its next effect succeeds (`o = none`) or fails (`o = some p`).
Control flow of 467-501: a failing `mkdtemp` leaves at once (it is outside the `try`); a failure in
the `try` block goes to the `finally`; a failing `os.remove` skips `os.rmdir` and leaves; a failing
`os.rmdir` leaves. -/
def stepProc (newMode : Nat) (sh : St) (p : Proc) (o : Option Nat) : St × Proc :=
  let env : Env := ⟨p.job.dest, newMode⟩
  match p.pc, o with
  | .init, none => (sh, { p with pc := .body p.job.body, loc := apply env p.loc .mkdtemp })
  | .init, some _ => (sh, { p with pc := .done true })
  | .body [], none =>
    let r := publish p.job.dest sh p.loc
    (r.1, { p with pc := .fin1 false, loc := r.2 })
  | .body [], some _ => (sh, { p with pc := .fin1 true })
  | .body (e :: r), none => (sh, { p with pc := .body r, loc := apply env p.loc e })
  | .body (e :: _), some q => (sh, { p with pc := .fin1 true, loc := applyPartial env p.loc e q })
  | .fin1 b, none => (sh, { p with pc := .fin2 b, loc := apply env p.loc .removeTmp })
  | .fin1 _, some _ => (sh, { p with pc := .done true })
  | .fin2 b, none => (sh, { p with pc := .done b, loc := apply env p.loc .rmdirTmp })
  | .fin2 _, some _ => (sh, { p with pc := .done true })
  | .done _, _ => (sh, p)

/-- A pick of the scheduler: driver `k` performs its next effect; `fault = some p`: it fails. -/
structure Pick where
  k : Nat
  fault : Option Nat
  deriving Repr

/-- One executed (or failed) effect of driver `k` and the state right after it. -/
structure CStep where
  k : Nat
  eff : Eff
  failed : Bool
  st : CSt

/-- Run a schedule. A pick of a driver that has finished (or of a number that is no driver: those
are `done` from the start) is skipped. -/
def crun (newMode : Nat) : List Pick → CSt → List CStep × CSt
  | [], c => ([], c)
  | pk :: r, c =>
    match nextEff (c.procs pk.k).pc with
    | none => crun newMode r c
    | some e =>
      let q := stepProc newMode c.sh (c.procs pk.k) pk.fault
      let c' : CSt := ⟨q.1, upd c.procs pk.k q.2⟩
      let rest := crun newMode r c'
      (⟨pk.k, e, pk.fault.isSome, c'⟩ :: rest.1, rest.2)

/-- The drivers at the start: one per job, every other number is a finished driver. -/
def initProcs (jobs : List Job) : Nat → Proc := fun k =>
  match jobs[k]? with
  | some j => ⟨j, .init, emptySt⟩
  | none => ⟨⟨"", []⟩, .done false, emptySt⟩

/-- Result of the concurrent sharded save. -/
structure CRes where
  steps : List CStep
  final : CSt
  /-- the pre-flight refused (852): nothing was done -/
  refused : Bool

/-- 852 + 874-911: the pre-flight check, then the shard drivers under schedule `sched`. -/
def saveShardedConc (newMode : Nat) (jobs : List Job) (sched : List Pick) (s0 : St) : CRes :=
  if jobs.any (fun j => existsP s0.fs (.user j.dest)) then ⟨[], ⟨s0, initProcs jobs⟩, true⟩
  else
    let r := crun newMode sched ⟨s0, initProcs jobs⟩
    ⟨r.1, r.2, false⟩

/-- Every driver has finished: the `with ThreadPoolExecutor(...)` block is left, the function returns
or re-raises (909-911). -/
def allDone (n : Nat) (c : CSt) : Bool :=
  (List.range n).all fun k => match (c.procs k).pc with | .done _ => true | _ => false

/-- Some shard save raised: `_write_external_tensors` raises (910). -/
def anyRaised (n : Nat) (c : CSt) : Bool :=
  (List.range n).any fun k => (c.procs k).pc == .done true

/-- The writer effects of a shard that is written serially (592-604): `tryBody` of the sequential
model when the destination does not exist. -/
def serialBody (cb : Bool) (ts : List Tensor) : List Eff :=
  [.openTmp] ++ writeEffs cb 0 ts ++ [.closeTmp]

def serialJob (cb : Bool) (j : String × List Tensor) : Job := ⟨j.1, serialBody cb j.2⟩

/-- The state of a driver's private world when its whole body ran without a failure. -/
def bodyEnd (newMode : Nat) (j : Job) : St :=
  j.body.foldl (apply ⟨j.dest, newMode⟩) (apply ⟨j.dest, newMode⟩ emptySt .mkdtemp)

/-- "The complete new bytes" of a shard: what its temporary file holds when its writer ran to the end
(`none`: the writer never created the file). -/
def newBytes (newMode : Nat) (j : Job) : Option Bytes :=
  ((bodyEnd newMode j).fs.file .tmpFile).map (bodyEnd newMode j).fs.data

/-- The sequential schedule: driver 0 until it has finished, then driver 1, ... (`fuel` picks each). -/
def seqSched (jobs : List Job) (f : Nat → Nat → Option Nat) : List Pick :=
  (List.range jobs.length).flatMap fun k =>
    match jobs[k]? with
    | some j => (List.range (j.body.length + 4)).map fun i => ⟨k, f k i⟩
    | none => []

end IrVerif.AtomicSave

import IrVerif.Model.PassFlags
/-!
# Model/PassFlags2.lean - the `modified` flag of further built-in passes (property C14, deepening)

Same convention as `Model/PassFlags.lean`: C05's pass models (`Model/Passes.lean`, imported read-only)
compute the transformed model only; every `...Cnt...` function below walks the model exactly as the C05
function of the same name does and counts at the sites where the Python sets `modified = True` /
`count += 1`.  Two small passes that C05 does not model (RemoveUnusedFunctionsPass,
RemoveUnusedOpsetsPass) are transcribed here completely.  Core Lean only.
-/
namespace IrVerif.PassFlags
open IrVerif.Sem IrVerif.Passes

/-! ## IdentityEliminationPass (identity_elimination.py 56-75): `modified = True` for every node for
which `_try_eliminate_identity_node` returns True, i.e. reaches line 131 `graph_like.remove(node)`;
the three `return False` of the keep rules (lines 99-117) do not count -/

mutual
def ieCntG (ii : List VId) (σ : Subst) : Graph → Nat
  | .mk inputs outputs inits nodes =>
    ieCntNodes ii (inputs ++ inits.map Prod.fst ++ outsTop nodes) σ outputs nodes
def ieCntNodes (ii loc : List VId) : Subst → List VId → List Node → Nat
  | _, _, [] => 0
  | σ, outs, .mk op _ ins nouts bodies :: ns =>
    match ieCandidate op (substIns σ ins) nouts with
    | some (x, y) =>
      if outs.contains y && (ii.contains x || !loc.contains x || outs.contains x) then
        ieCntBodies ii σ bodies + ieCntNodes ii loc σ outs ns
      else
        1 + ieCntNodes ii loc ((y, x) :: σ) (outs.map (fun o => if o = y then x else o)) ns
    | none => ieCntBodies ii σ bodies + ieCntNodes ii loc σ outs ns
def ieCntBodies (ii : List VId) (σ : Subst) : List Graph → Nat
  | [] => 0
  | b :: bs => ieCntG ii σ b + ieCntBodies ii σ bs
end

/-- `IdentityEliminationPass.call`: main graph, then every function -/
def ieCount (m : Model) : Nat :=
  ieCntG (iiG m.graph ++ m.funcs.flatMap iiG) [] m.graph +
    (m.funcs.map (ieCntG (iiG m.graph ++ m.funcs.flatMap iiG) [])).sum

def ieFlag (m : Model) : Bool := ieCount m != 0

/-- the measure of the pass: nodes of the main graph and of the functions, nested graphs included -/
def nodesM (m : Model) : Nat := nodesG m.graph + (m.funcs.map nodesG).sum

/-! hypothesis of the idempotence theorem of the pass: an `Identity` node (domain "") holds no graph
attribute (the ONNX operator has no attribute at all), main graph, functions, all nested graphs -/
mutual
def idNoBodiesG : Graph → Bool
  | .mk _ _ _ nodes => idNoBodiesNodes nodes
def idNoBodiesNodes : List Node → Bool
  | [] => true
  | .mk op _ _ _ bodies :: ns =>
    (!isIdentityOp op || bodies.isEmpty) && idNoBodiesBodies bodies && idNoBodiesNodes ns
def idNoBodiesBodies : List Graph → Bool
  | [] => true
  | b :: bs => idNoBodiesG b && idNoBodiesBodies bs
end

def idNoBodies (m : Model) : Bool := idNoBodiesG m.graph && idNoBodiesBodies m.funcs

/-! ## CommonSubexpressionEliminationPass (common_subexpression_elimination.py 49-147):
`modified = True` (line 133) for every node whose key is already in the dictionary -/

/-- number of eliminated nodes (the `modified = True` site) -/
def cseCnt (limit : Nat) (gins : List VId) : List Node → Subst → List VId → List Node → Nat
  | _, _, _, [] => 0
  | tbl, σ, outs, .mk op attrs ins nouts bodies :: ns =>
    if cseSkip limit op attrs bodies then cseCnt limit gins tbl σ outs ns
    else
      match tbl.find? (fun n1 => cseKeyMatch n1 (.mk op attrs (substIns σ ins) nouts (substBodies σ bodies))) with
      | some n1 =>
        1 + cseCnt limit gins tbl (nouts.zip n1.outs ++ σ)
          (cseFixOuts gins (nouts.zip n1.outs) [] [] outs).1 ns
      | none =>
        cseCnt limit gins (tbl ++ [.mk op attrs (substIns σ ins) nouts (substBodies σ bodies)]) σ outs ns

/-- number of Identity nodes inserted by `_remove_node_and_replace_values` (lines 178-196: the
    replacement of a graph output is itself a graph output or input) -/
def cseIns (limit : Nat) (gins : List VId) : List Node → Subst → List VId → List Node → Nat
  | _, _, _, [] => 0
  | tbl, σ, outs, .mk op attrs ins nouts bodies :: ns =>
    if cseSkip limit op attrs bodies then cseIns limit gins tbl σ outs ns
    else
      match tbl.find? (fun n1 => cseKeyMatch n1 (.mk op attrs (substIns σ ins) nouts (substBodies σ bodies))) with
      | some n1 =>
        (cseFixOuts gins (nouts.zip n1.outs) [] [] outs).2.length +
          cseIns limit gins tbl (nouts.zip n1.outs ++ σ)
            (cseFixOuts gins (nouts.zip n1.outs) [] [] outs).1 ns
      | none =>
        cseIns limit gins (tbl ++ [.mk op attrs (substIns σ ins) nouts (substBodies σ bodies)]) σ outs ns

/-- weight of a node for the measure of the pass: an `Identity` node with one output (the shape of the
    nodes `_remove_node_and_replace_values` inserts) weighs 1, every other node 1 + its number of outputs -/
def cseWt : Node → Nat
  | .mk op _ _ outs _ => if isIdentityOp op && outs.length == 1 then 1 else outs.length + 1

def cseW (ns : List Node) : Nat := (ns.map cseWt).sum

/-- number of eliminated one-output `Identity` nodes for which an Identity node was inserted again (the
    only rewrite that does not lower `cseW`) -/
def cseStall (limit : Nat) (gins : List VId) : List Node → Subst → List VId → List Node → Nat
  | _, _, _, [] => 0
  | tbl, σ, outs, .mk op attrs ins nouts bodies :: ns =>
    if cseSkip limit op attrs bodies then cseStall limit gins tbl σ outs ns
    else
      match tbl.find? (fun n1 => cseKeyMatch n1 (.mk op attrs (substIns σ ins) nouts (substBodies σ bodies))) with
      | some n1 =>
        (if isIdentityOp op && nouts.length == 1 &&
            !(cseFixOuts gins (nouts.zip n1.outs) [] [] outs).2.isEmpty then 1 else 0) +
          cseStall limit gins tbl (nouts.zip n1.outs ++ σ)
            (cseFixOuts gins (nouts.zip n1.outs) [] [] outs).1 ns
      | none =>
        cseStall limit gins (tbl ++ [.mk op attrs (substIns σ ins) nouts (substBodies σ bodies)]) σ outs ns

def cseStalled (limit : Nat) (m : Model) : Nat :=
  cseStall limit m.graph.inputs [] [] m.graph.outputs m.graph.nodes

def cseCount (limit : Nat) (m : Model) : Nat :=
  cseCnt limit m.graph.inputs [] [] m.graph.outputs m.graph.nodes
def cseInserted (limit : Nat) (m : Model) : Nat :=
  cseIns limit m.graph.inputs [] [] m.graph.outputs m.graph.nodes
def cseFlag (limit : Nat) (m : Model) : Bool := cseCount limit m != 0

/-! ## LiftSubgraphInitializersToMainGraphPass (constant_manipulation.py 163-213): `count += 1` per
initializer popped from a graph below the main graph, `modified = bool(count)` -/

def lsiCount (m : Model) : Nat := (lsiNodes m.graph.nodes).2.length
def lsiFlag (m : Model) : Bool := lsiCount m != 0
/-- the measure of the pass: initializers held by graphs below the main graph -/
def subInits (m : Model) : Nat := initsNodes m.graph.nodes

/-! ## OutputFixPass (output_fix.py 51-69): `modified = True` when `_alias_multi_used_outputs` or
`_alias_direct_outputs` inserted an Identity node (lines 104, 141) in any graph of the main graph or of a
function -/

mutual
def ofixCntG (gi : List VId) (next : Nat) : Graph → Nat
  | .mk _ outputs _ nodes =>
    ofixCntNodes gi next nodes +
      (ofixMulti [] outputs (ofixNodes gi next nodes).2).2.1.length +
      (ofixDirect gi (ofixMulti [] outputs (ofixNodes gi next nodes).2).1
        (ofixMulti [] outputs (ofixNodes gi next nodes).2).2.2).2.1.length
def ofixCntNodes (gi : List VId) (next : Nat) : List Node → Nat
  | [] => 0
  | .mk _ _ _ _ bodies :: ns =>
    ofixCntBodies gi next bodies + ofixCntNodes gi (ofixBodies gi next bodies).2 ns
def ofixCntBodies (gi : List VId) (next : Nat) : List Graph → Nat
  | [] => 0
  | b :: bs => ofixCntG gi next b + ofixCntBodies gi (ofixG gi next b).2 bs
end

def ofixCount (m : Model) : Nat :=
  ofixCntG (ginsG m.graph ++ ginsBodies m.funcs) (freshId m) m.graph +
    ofixCntBodies (ginsG m.graph ++ ginsBodies m.funcs)
      (ofixG (ginsG m.graph ++ ginsBodies m.funcs) (freshId m) m.graph).2 m.funcs

def ofixFlag (m : Model) : Bool := ofixCount m != 0

/-! ## "topologically ordered" for a whole model: C05's `noFwdG` (no node reads a value that the node
itself or a later node of its graph defines, nested graphs included) for the main graph and every function -/
def sortedModel (m : Model) : Bool := noFwdG m.graph && m.funcs.all noFwdG

/-! ## RemoveUnusedOpsetsPass (unused_removal.py 196-230)

One graph-like: its `opset_imports` keys (insertion order) and the domains of its nodes, nested graphs
included (`RecursiveGraphIterator`).  `_process_graph_like`: `unused = set(opset_imports) - used_domains`,
every unused key is deleted, returns `bool(unused)`. -/

structure OpsetGL where
  imports : List String
  domains : List String
deriving Repr, DecidableEq

/-- `_process_graph_like(graph_like, used_domains)`: `seed` = the initial `used_domains` -/
def opsetsGL (seed : List String) (g : OpsetGL) : OpsetGL × Bool :=
  ({ g with imports := g.imports.filter (fun d => (seed ++ g.domains).contains d) },
    g.imports.any (fun d => !(seed ++ g.domains).contains d))

/-- the model as the pass sees it: main graph, functions with their domain -/
structure OpsetSt where
  main : OpsetGL
  funcs : List (String × OpsetGL)
deriving Repr, DecidableEq

/-- `RemoveUnusedOpsetsPass(process_functions).call` (lines 219-230): the main graph keeps "" and the
    domains of all functions and of its nodes; each function keeps "" and the domains of its nodes -/
def removeUnusedOpsets (pf : Bool) (s : OpsetSt) : OpsetSt × Bool :=
  let r := opsetsGL ("" :: s.funcs.map Prod.fst) s.main
  if pf then
    ({ main := r.1, funcs := s.funcs.map (fun f => (f.1, (opsetsGL [""] f.2).1)) },
      r.2 || s.funcs.any (fun f => (opsetsGL [""] f.2).2))
  else ({ main := r.1, funcs := s.funcs }, r.2)

def opsetSize (s : OpsetSt) : Nat := s.main.imports.length + (s.funcs.map (fun f => f.2.imports.length)).sum

/-! ## RemoveUnusedFunctionsPass (unused_removal.py 144-193)

`funcs` = `model.functions` in insertion order: identifier (as a number) and the operator identifiers of
the nodes of the function, nested graphs included, in `RecursiveGraphIterator` order; `main` = the same
for the main graph.  An identifier that is no key of `funcs` is an ordinary operator. -/

structure FnSt where
  main : List Nat
  funcs : List (Nat × List Nat)
deriving Repr, DecidableEq

/-- `_call_node` / `_call_function` with an explicit stack of pending nodes: a callee that is a function
    and not yet in `used` is added and its nodes are visited first (depth first, as the recursion does).
    `fuel` bounds the number of nodes that can still be visited. -/
def fnVisit (funcs : List (Nat × List Nat)) : Nat → List Nat → List Nat → List Nat
  | 0, _, used => used
  | _ + 1, [], used => used
  | fuel + 1, k :: work, used =>
    match funcs.lookup k with
    | none => fnVisit funcs fuel work used
    | some body =>
      if used.contains k then fnVisit funcs fuel work used
      else fnVisit funcs fuel (body ++ work) (k :: used)

/-- the set `self._used` after the traversal of the main graph.  Every node is visited at most once per
    function it belongs to and every function body is entered at most once (the keys of a dict are
    distinct), so the number of nodes of the main graph and of all functions is enough fuel. -/
def fnUsed (s : FnSt) : List Nat :=
  fnVisit s.funcs (s.main.length + (s.funcs.map (fun f => f.2.length)).sum) s.main []

/-- `RemoveUnusedFunctionsPass.call`: delete every function that is not used; `modified = bool(unused)` -/
def removeUnusedFunctions (s : FnSt) : FnSt × Bool :=
  ({ s with funcs := s.funcs.filter (fun f => (fnUsed s).contains f.1) },
    s.funcs.any (fun f => !(fnUsed s).contains f.1))

end IrVerif.PassFlags

/-!
# Model of the single-file external-data save (property C08)

Transcribes `_write_external_data` and the serial `_ExternalDataWriter._write_serial`
(`src/onnx_ir/external_data.py` 453-513 and 580-593), the sharded pre-flight
(`_check_no_existing_shard_files` 289-315, called at 836-839, followed by the per-shard saves
900-914) and the "load small external tensors first" step of `unload_from_model` (1058-1064).
(Line numbers: /repo after `fix:` 44c0eb3, which moved the collection of the overwritten tensors
in front of `mkdtemp`; `fix:` 43b6cd9 added four lines to the invalidation loop, so everything
below line 503 is four lines further down than cited.)

The file system is `path -> inode -> (bytes, mode)`.  Paths are either names the caller can
spell (`Path.user`) or the two paths created by `tempfile.mkdtemp` (`tmpDir`) and the file inside
it (`tmpFile`): that `mkdtemp` returns a directory that did not exist is the contract of
`mkdtemp` and is built into the type (a stated assumption, checked by the harness on every run).

A save is the list of effects the code performs.  Every effect is a *fault point*: under the
exception semantics the effect does nothing (a `write` may write a prefix of its bytes) and the
Python exception handlers run (`finally:` 497-501); a crash is "the process stops after some
step", so the crash states are exactly the visited states `Res.steps` of a run.

The parallel writer `_write_parallel` (591-653) is modelled by its own effects (`truncate`,
`openW/seekW/writeW/closeW` on per-worker handles); its effect *order* is the thread schedule, so
the executable `saveWriter` takes the writer's effect list as a parameter (the harness passes the
observed order) and `C08_crash`/`C08_exception_multi` quantify over every such list. When one
worker fails the other workers keep running until the pool is shut down; the model leaves the
block at the failing effect — the later effects only touch the temporary file.
Not modelled (stated, not hidden): the concurrent shard drivers (858-895); symlinks as file-system
objects (the chain of the destination is resolved by `destinationOf`, 453-456, and the effects then
work on resolved names; symlinked directory components are differential only); failures an effect produces by itself (e.g. `os.replace` onto a directory) — they
are instances of "effect k fails", which the fault parameter `f` ranges over.

Core Lean only (linked into the driver).
-/
namespace IrVerif.AtomicSave

abbrev Bytes := List Nat

/-- Paths.  `user n` is any path spelled by the caller (destination, other files in the
directory, the path of an `ExternalTensor`); `tmpDir` is what `tempfile.mkdtemp(dir=..., prefix=...)`
returned (467-470) and `tmpFile` is `os.path.join(temporary_dir, basename)` (471). -/
inductive Path where
  | user (name : String)
  | tmpDir
  | tmpFile
  deriving DecidableEq, Repr

/-- File system: directory entries of regular files (`file`), directories (`isDir`), inode
contents and permission bits, and the next unused inode number. Hard links are two names with
the same inode. -/
structure FS where
  file : Path → Option Nat
  isDir : Path → Bool
  data : Nat → Bytes
  mode : Nat → Nat
  next : Nat

/-- Point update of a function. -/
def upd {α β : Type} [DecidableEq α] (f : α → β) (a : α) (b : β) : α → β :=
  fun x => if x = a then b else f x

/-- `ExternalTensor` fields that matter here: `.path`, offset, length (`_core.py` 726-738). -/
structure Ext where
  path : String
  off : Nat
  len : Nat
  deriving DecidableEq, Repr

/-- One tensor to be written: its offset in the new file (`_ExternalDataInfo.offset`), the
successive `file.write` calls its `tofile` performs (`_core.py` 205-216, 600-614, 978-992; a
custom tensor may write several chunks), and the external-tensor fields if it is one. -/
structure Tensor where
  off : Nat
  chunks : List Bytes
  ext : Option Ext
  deriving Repr

/-- Run-time state: the file system, the open handle on the temporary file (inode, position),
per-tensor `ExternalTensor._valid` and mmap (`raw`: the inode that is mapped, if any),
memory copies taken by `_external_tensor_to_memory_tensor`, a ghost flag recording that
`os.replace` renamed the temporary file onto the destination, and the per-worker handles of the
parallel writer. -/
structure St where
  fs : FS
  fd : Option Nat
  pos : Nat
  valid : Nat → Bool
  mapped : Nat → Option Nat
  mem : Nat → Option Bytes
  replaced : Bool
  /-- handles of the parallel writer's workers (`_thread_file`, 621-631): inode and position -/
  wfd : Nat → Option (Nat × Nat)

/-- The effects (one per file-system call, tensor call-back or `ExternalTensor` state change). -/
inductive Eff where
  /-- `tempfile.mkdtemp(dir=destination_dir, prefix=".<basename>.")` 467-470 -/
  | mkdtemp
  /-- `open(temporary_path, "wb")` 578 -/
  | openTmp
  /-- `self._invoke_callback(i, tensor, offset)` 585 -/
  | callback (i : Nat)
  /-- `file.seek(offset)` 391 -/
  | seek (off : Nat)
  /-- one `file.write(chunk)` issued by `tensor.tofile(file)` 395 or `file.write(tensor.tobytes())` 397 -/
  | write (bs : Bytes)
  /-- leaving the `with open(...)` block 578 -/
  | closeTmp
  /-- `tensor.release()` 492-493 (and 272 for small tensors) -/
  | release (i : Nat)
  /-- `shutil.copymode(destination_path, temporary_path)` 494-495 -/
  | copymode
  /-- `os.replace(temporary_path, destination_path)` 496 -/
  | replace
  /-- `os.remove(temporary_path)` under `suppress(FileNotFoundError)` 498-499 -/
  | removeTmp
  /-- `os.rmdir(temporary_dir)` under `suppress(FileNotFoundError)` 500-501 -/
  | rmdirTmp
  /-- `tensor.invalidate()` 503-508 (only for tensors whose path still refers to the destination) -/
  | invalidate (i : Nat)
  /-- `tensor.numpy().copy()` of a small external tensor, 271 (via 1063-1065): `numpy()` maps the
  file if it is not mapped yet (`_core.py` 890-899, 817-831), the copy is kept in memory -/
  | loadSmall (i : Nat) (e : Ext)
  /-- `data_file.truncate(total_size)` of the parallel writer, 608-609 -/
  | truncate (n : Nat)
  /-- worker `w` opens its own handle: `open(self._file_path, "r+b")` 625-627 -/
  | openW (w : Nat)
  /-- `file.seek(offset)` 391 on worker `w`'s handle -/
  | seekW (w : Nat) (off : Nat)
  /-- one `file.write(chunk)` on worker `w`'s handle -/
  | writeW (w : Nat) (bs : Bytes)
  /-- `data_file.close()` of worker `w`'s handle, 652-653 -/
  | closeW (w : Nat)
  deriving DecidableEq, Repr

/-- Python file semantics of `seek(pos); write(bs)` on content `buf`: a gap past the end reads
back as zeros; writing nothing changes nothing (no extension). -/
def writeAt (buf : Bytes) (pos : Nat) (bs : Bytes) : Bytes :=
  if bs.isEmpty then buf
  else buf.take pos ++ List.replicate (pos - buf.length) 0 ++ bs ++ buf.drop (pos + bs.length)

/-- `truncate(n)`: cut, or extend with zeros. -/
def resize (buf : Bytes) (n : Nat) : Bytes := buf.take n ++ List.replicate (n - buf.length) 0

def slice (buf : Bytes) (off len : Nat) : Bytes := (buf.drop off).take len

/-- Static parameters of the effects: destination path (already resolved, 453-456) and the
permission bits a newly created file gets (`0o666 & ~umask`). -/
structure Env where
  dest : String
  newMode : Nat

/-- What `ExternalTensor.tobytes()`/`numpy()` returns in state `s` for tensor number `i` with
fields `e`: `none` = raises (invalidated, or the file is missing); reads go through the existing
mmap if there is one, else through the path (`_core.py` 817-831, 901-915). -/
def readT (s : St) (i : Nat) (e : Ext) : Option Bytes :=
  if s.valid i then
    match s.mapped i with
    | some m => some (slice (s.fs.data m) e.off e.len)
    | none => (s.fs.file (.user e.path)).map fun m => slice (s.fs.data m) e.off e.len
  else none

/-- The successful execution of one effect. -/
def apply (env : Env) (s : St) : Eff → St
  | .mkdtemp => { s with fs := { s.fs with isDir := upd s.fs.isDir .tmpDir true } }
  | .openTmp =>
    match s.fs.file .tmpFile with
    | some i => { s with fs := { s.fs with data := upd s.fs.data i [] }, fd := some i, pos := 0 }
    | none =>
      { s with
        fs := { s.fs with
                file := upd s.fs.file .tmpFile (some s.fs.next)
                data := upd s.fs.data s.fs.next []
                mode := upd s.fs.mode s.fs.next env.newMode
                next := s.fs.next + 1 }
        fd := some s.fs.next
        pos := 0 }
  | .callback _ => s
  | .seek off => { s with pos := off }
  | .write bs =>
    match s.fd with
    | some i =>
      { s with
        fs := { s.fs with data := upd s.fs.data i (writeAt (s.fs.data i) s.pos bs) }
        pos := s.pos + bs.length }
    | none => s
  | .closeTmp => { s with fd := none }
  | .release i => { s with mapped := upd s.mapped i none }
  | .copymode =>
    match s.fs.file (.user env.dest), s.fs.file .tmpFile with
    | some d, some t => { s with fs := { s.fs with mode := upd s.fs.mode t (s.fs.mode d) } }
    | _, _ => s
  | .replace =>
    match s.fs.file .tmpFile with
    | some t =>
      { s with
        fs := { s.fs with file := upd (upd s.fs.file (.user env.dest) (some t)) .tmpFile none }
        replaced := true }
    | none => s
  | .removeTmp => { s with fs := { s.fs with file := upd s.fs.file .tmpFile none } }
  | .rmdirTmp =>
    if (s.fs.file .tmpFile).isSome then s
    else { s with fs := { s.fs with isDir := upd s.fs.isDir .tmpDir false } }
  | .invalidate i => { s with valid := upd s.valid i false }
  | .loadSmall i e =>
    { s with
      mem := upd s.mem i (readT s i e)
      mapped := upd s.mapped i
        (if s.valid i then
          (match s.mapped i with
            | some m => some m
            | none => s.fs.file (.user e.path))
         else s.mapped i) }
  | .truncate n =>
    match s.fd with
    | some i => { s with fs := { s.fs with data := upd s.fs.data i (resize (s.fs.data i) n) } }
    | none => s
  | .openW w =>
    match s.fs.file .tmpFile with
    | some i => { s with wfd := upd s.wfd w (some (i, 0)) }
    | none => s
  | .seekW w off =>
    match s.wfd w with
    | some (i, _) => { s with wfd := upd s.wfd w (some (i, off)) }
    | none => s
  | .writeW w bs =>
    match s.wfd w with
    | some (i, p) =>
      { s with
        fs := { s.fs with data := upd s.fs.data i (writeAt (s.fs.data i) p bs) }
        wfd := upd s.wfd w (some (i, p + bs.length)) }
    | none => s
  | .closeW w => { s with wfd := upd s.wfd w none }

/-- What a *failing* effect leaves behind: a `write` may have written the first `p` bytes of its
chunk; every other effect either happens or does not. -/
def applyPartial (env : Env) (s : St) : Eff → Nat → St
  | .write bs, p => apply env s (.write (bs.take p))
  | .writeW w bs, p => apply env s (.writeW w (bs.take p))
  | _, _ => s

/-- One executed (or failed) effect and the state right after it. -/
structure Step where
  eff : Eff
  failed : Bool
  st : St

/-- Result of running a block: the steps, the state at the end, whether a fault fired. -/
structure Res where
  steps : List Step
  final : St
  faulted : Bool

/-- Run effects in order; `n` is the dynamic index of the next effect; `f n = some p` means the
effect with index `n` fails (after `p` bytes if it is a write) and the block is left. -/
def runList (env : Env) (f : Nat → Option Nat) : List Eff → Nat → St → Res
  | [], _, s => ⟨[], s, false⟩
  | e :: es, n, s =>
    match f n with
    | some p => ⟨[⟨e, true, applyPartial env s e p⟩], applyPartial env s e p, true⟩
    | none =>
      let r := runList env f es (n + 1) (apply env s e)
      ⟨⟨e, false, apply env s e⟩ :: r.steps, r.final, r.faulted⟩

/-- `_write_external_data` 453-509 with an abstract `body` (what `writer.write()` and the release
loop do, 474-495) and `post` (the invalidation loop 503-513): `mkdtemp` is outside the `try`;
`body` and `os.replace` are inside; the `finally` runs `os.remove` then `os.rmdir` (a failing
`remove` skips `rmdir`); `post` runs only if nothing raised. `faulted` = an exception leaves the
function. -/
def saveWith (env : Env) (body post : List Eff) (f : Nat → Option Nat) (n0 : Nat) (s0 : St) : Res :=
  let a := runList env f [.mkdtemp] n0 s0
  if a.faulted then a else
  let b := runList env f (body ++ [.replace]) (n0 + 1) a.final
  let c := runList env f [.removeTmp, .rmdirTmp] (n0 + 1 + b.steps.length) b.final
  if b.faulted || c.faulted then ⟨a.steps ++ b.steps ++ c.steps, c.final, true⟩ else
  let d := runList env f post (n0 + 1 + b.steps.length + c.steps.length) c.final
  ⟨a.steps ++ b.steps ++ c.steps ++ d.steps, d.final, d.faulted⟩

/-- `os.path.samefile` wrapped by `_paths_refer_to_same_file` 276-286: both exist, same inode. -/
def sameFile (fs : FS) (p q : Path) : Bool :=
  match fs.file p, fs.file q with
  | some a, some b => a == b
  | _, _ => false

/-- `overwritten_tensors` 461-466 (computed before `mkdtemp`; it reads the file system only): positions of external tensors whose path is the destination file. -/
def overwrittenFrom (fs : FS) (dest : String) : Nat → List Tensor → List Nat
  | _, [] => []
  | i, t :: ts =>
    (match t.ext with
      | some e => if sameFile fs (.user e.path) (.user dest) then [i] else []
      | none => []) ++ overwrittenFrom fs dest (i + 1) ts

/-- Effects of writing tensor number `i` in `_write_serial` 581-589 + `_write_tensor_at` 385-397. -/
def tensorEffs (cb : Bool) (i : Nat) (t : Tensor) : List Eff :=
  (if cb then [.callback i] else []) ++ [.seek t.off] ++ t.chunks.map .write

def writeEffs (cb : Bool) : Nat → List Tensor → List Eff
  | _, [] => []
  | i, t :: ts => tensorEffs cb i t ++ writeEffs cb (i + 1) ts

structure Cfg where
  env : Env
  tensors : List Tensor
  cb : Bool

def overwritten (cfg : Cfg) (s0 : St) : List Nat :=
  overwrittenFrom s0.fs cfg.env.dest 0 cfg.tensors

/-- Inside the `try`, before `os.replace`: serial writer, release of the overwritten tensors,
`copymode` when the destination exists (evaluated on the initial file system: nothing before
it changes a caller-visible path, see `Props/C08.lean` `old_apply`). -/
def tryBody (cfg : Cfg) (s0 : St) : List Eff :=
  [.openTmp] ++ writeEffs cfg.cb 0 cfg.tensors ++ [.closeTmp]
    ++ (overwritten cfg s0).map .release
    ++ (if (s0.fs.file (.user cfg.env.dest)).isSome then [.copymode] else [])

/-- The tensors the invalidation loop 503-511 invalidates (after `fix:` 43b6cd9): the collected
tensors for which `_paths_refer_to_same_file(tensor.path, destination_path)` still holds *after*
the replace. At that point the destination names the fresh inode and every other name keeps the
inode it had, so the test holds exactly for the collected tensors whose (resolved) path is the
destination name — not for other hard links of the old inode (`Props/C08.lean`
`C08_post_samefile` proves this reading of the dynamic test). -/
def invalidatedFrom (fs : FS) (dest : String) : Nat → List Tensor → List Nat
  | _, [] => []
  | i, t :: ts =>
    (match t.ext with
      | some e => if sameFile fs (.user e.path) (.user dest) && e.path == dest then [i] else []
      | none => []) ++ invalidatedFrom fs dest (i + 1) ts

def invalidated (cfg : Cfg) (s0 : St) : List Nat :=
  invalidatedFrom s0.fs cfg.env.dest 0 cfg.tensors

def postEffs (cfg : Cfg) (s0 : St) : List Eff := (invalidated cfg s0).map .invalidate

/-- The `try` block with an explicit list of writer effects instead of the serial writer's: used
for the parallel writer `_write_parallel` 591-653, whose effect order is the thread schedule (the
harness passes the order it observed; the theorems quantify over all such lists). -/
def tryBodyWith (cfg : Cfg) (s0 : St) (writer : List Eff) : List Eff :=
  writer ++ (overwritten cfg s0).map .release
    ++ (if (s0.fs.file (.user cfg.env.dest)).isSome then [.copymode] else [])

def saveWriter (cfg : Cfg) (writer : List Eff) (f : Nat → Option Nat) (n0 : Nat) (s0 : St) : Res :=
  saveWith cfg.env (tryBodyWith cfg s0 writer) (postEffs cfg s0) f n0 s0

/-- `destination_path` 453-456: `os.path.realpath(requested)` when the requested path is a symlink,
else the requested path. Symlinks are a table `name -> target` (both root-relative and normalised:
the path algebra itself is property C10's); `realpath` follows the chain (`fuel` bounds a cycle,
which `realpath` leaves unresolved as well). -/
def resolveLink (links : List (String × String)) : Nat → String → String
  | 0, p => p
  | fuel + 1, p =>
    match links.lookup p with
    | some t => resolveLink links fuel t
    | none => p

def destinationOf (links : List (String × String)) (requested : String) : String :=
  resolveLink links (links.length + 1) requested

/-- The serial single-file save. -/
def save (cfg : Cfg) (f : Nat → Option Nat) (n0 : Nat) (s0 : St) : Res :=
  saveWith cfg.env (tryBody cfg s0) (postEffs cfg s0) f n0 s0

/-- The bytes a complete save produces: every tensor's bytes at its offset, in order. -/
def image (ts : List Tensor) : Bytes :=
  ts.foldl (fun b t => writeAt b t.off t.chunks.flatten) []

/-- `os.path.exists` for a caller path. -/
def existsP (fs : FS) (p : Path) : Bool := (fs.file p).isSome || fs.isDir p

/-- `unload_from_model` 1058-1065: small external tensors (position, fields) are copied to memory
and released before anything is written. -/
def loadEffs : List (Nat × Ext) → List Eff
  | [] => []
  | (i, e) :: r => .loadSmall i e :: .release i :: loadEffs r

/-- `unload_from_model` restricted to one destination file: load the small external tensors, then
the single-file save. A fault while loading leaves before any file-system effect. -/
def unload (cfg : Cfg) (small : List (Nat × Ext)) (f : Nat → Option Nat) (s0 : St) : Res :=
  let l := runList cfg.env f (loadEffs small) 0 s0
  if l.faulted then l else
  let r := save cfg f l.steps.length l.final
  ⟨l.steps ++ r.steps, r.final, r.faulted⟩

/-- Sequential sharded save, 826-839 and 900-914: one `(destination, tensors)` job per shard;
`_check_no_existing_shard_files` first; then one single-file save per shard, stopping at the
first exception. -/
def shardLoop (newMode : Nat) (cb : Bool) (f : Nat → Option Nat) :
    List (String × List Tensor) → Nat → St → Res
  | [], _, s => ⟨[], s, false⟩
  | (d, ts) :: rest, n, s =>
    let r := save ⟨⟨d, newMode⟩, ts, cb⟩ f n s
    if r.faulted then r else
    let q := shardLoop newMode cb f rest (n + r.steps.length) r.final
    ⟨r.steps ++ q.steps, q.final, q.faulted⟩

def saveSharded (newMode : Nat) (cb : Bool) (jobs : List (String × List Tensor))
    (f : Nat → Option Nat) (s0 : St) : Res :=
  if jobs.any (fun j => existsP s0.fs (.user j.1)) then ⟨[], s0, true⟩
  else shardLoop newMode cb f jobs 0 s0

end IrVerif.AtomicSave

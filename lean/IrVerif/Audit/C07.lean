import IrVerif.Props.C07
open IrVerif.Layout
#print axioms C07_disjoint
#print axioms C07_monotone
#print axioms C07_lengths
#print axioms C07_within
#print axioms C07_aligned
#print axioms C07_first_at_zero
#print axioms C07_shards_partition
#print axioms C07_shard_limit
#print axioms C07_readback
#print axioms C07_readback_layout
#print axioms C07_shards_partition_st
#print axioms C07_shard_limit_st
#print axioms C07_model_restored
#print axioms C07_image_order_independent
#print axioms C07_roundtrip
#print axioms C07_dataFiles_schedule
#print axioms C07_filename_dir
#print axioms C07_filename_inj
#print axioms C07_filename_ne_base
#print axioms C07_filename_parts
#print axioms C07_threshold
#print axioms C07_threshold_st
#print axioms C07_roundtrip_value
#print axioms C07_serialize_sees_unloaded
#print axioms C07_placement_shard

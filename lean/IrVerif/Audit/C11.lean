import IrVerif.Props.C11
open IrVerif.LinkedSet
#print axioms C11_rep_empty
#print axioms C11_rep_step
#print axioms C11_rep_history
#print axioms C11_refine_step
#print axioms C11_rep_toList
#print axioms C11_refine_next
#print axioms C11_refine_start
#print axioms C11_refine_rest
#print axioms C11_terminates
#print axioms C11_only_members
#print axioms C11_getitem_len_contains
#print axioms C11_tombstone_frozen
#print axioms C11_tombstone_order
#print axioms C11_next_rest
#print axioms C11_untouched_step
#print axioms C11_resume_current
#print axioms C11_untouched_exactly_once_in_order
#print axioms C11_spec_rest_remove
#print axioms C11_spec_rest_insert
#print axioms C11_spec_resume
#print axioms C11_rec_start
#print axioms C11_rec_only_members
#print axioms C11_rec_terminates
#print axioms C11_rec_preorder
#print axioms C11_rec_history
#print axioms C11_rec_refine_step

import IrVerif.Props.C11
open IrVerif.LinkedSet
#print axioms C11_rep_empty
#print axioms C11_rep_remove
#print axioms C11_rep_insertOneAfter

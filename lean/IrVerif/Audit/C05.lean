import IrVerif.Props.C05
open IrVerif.Passes
#print axioms C05_dce
#print axioms C05_identity
#print axioms C05_cse
#print axioms C05_rm_init_inputs
#print axioms C05_add_init_inputs
#print axioms C05_lift_const
#print axioms C05_dedup
#print axioms C05_output_fix
#print axioms C05_compose
#print axioms C05_lift_sub_inits
#print axioms C05_toposort
#print axioms C05_cse_skips
#print axioms C05_pass_valid
#print axioms C05_compose_valid
#print axioms IrVerif.Inline.C05_inline_partial
#print axioms IrVerif.Inline.C05_inline_nested_partial
#print axioms IrVerif.Inline.C05_inline
#print axioms IrVerif.Inline.C05_inline_total
#print axioms IrVerif.Inline.C05_coherent
#print axioms IrVerif.Inline.C05_coherent_lift
#print axioms IrVerif.Inline.C05_call_depth
#print axioms IrVerif.Inline.C05_unused_functions
#print axioms IrVerif.Inline.C05_unused_opsets
#print axioms IrVerif.Inline.C05_inline_canonical
#print axioms IrVerif.Inline.C05_add_defaults

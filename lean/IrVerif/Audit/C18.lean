import IrVerif.Props.C18
open IrVerif.Extract
#print axioms C18_nodes_exact
#print axioms C18_nodes_exact_free
#print axioms C18_values_exact
#print axioms C18_order
#print axioms C18_inits
#print axioms C18_raises_iff
#print axioms C18_external_free
#print axioms C18_eval
#print axioms C18_cover_of_clone
#print axioms C18_raises_of_uncovered
#print axioms C18_extract_eval
#print axioms C18_extract_unbounded_iff
#print axioms C18_captures_keys
#print axioms C18_captures_complete
#print axioms C18_captures_sound
#print axioms C18_independent

import IrVerif.Props.C20
open IrVerif.Journal
#print axioms C20_restore
#print axioms C20_restore_active
#print axioms C20_reentry_refused
#print axioms C20_guard_needed
#print axioms C20_transparent
#print axioms C20_transparent_from_start
#print axioms C20_transparent_needs_DetailsOk
#print axioms C20_transparent_needs_DetailsPure
#print axioms C20_transparent_needs_NoReentry
#print axioms C20_transparent_needs_ProcNone
#print axioms C20_entries
#print axioms C20_entries_active
#print axioms C20_slot_table
#print axioms C20_wrapper_order
#print axioms C20_no_strong_ref
#print axioms C20_no_strong_ref_record
#print axioms C20_entry_core
#print axioms C20_no_strong_ref_run
#print axioms C20_exit_fault
#print axioms C20_exit_fault_leaves_wrapped
#print axioms C20_exit_retry
#print axioms C20_restore_generator_close
#print axioms C20_improper_nesting_not_restored
#print axioms C20_kernel_plain
#print axioms C20_transparent_kernel

import IrVerif.Props.C20
open IrVerif.Journal
#print axioms C20_restore
#print axioms C20_restore_active
#print axioms C20_reentry_refused
#print axioms C20_guard_needed
#print axioms C20_transparent
#print axioms C20_transparent_from_start
#print axioms C20_transparent_needs_DetailsOk
#print axioms C20_transparent_needs_DetailsPure
#print axioms C20_transparent_needs_NoReentry
#print axioms C20_transparent_needs_ProcNone
#print axioms C20_entries
#print axioms C20_entries_active

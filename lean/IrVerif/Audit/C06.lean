import IrVerif.Props.C06
open IrVerif.Kernel
#print axioms C06_atomic
#print axioms C06_update_atomic
#print axioms C06_rename_values_atomic
#print axioms C06_sort_cycle_no_change

import IrVerif.Props.C06
open IrVerif.Kernel
#print axioms C06_atomic
#print axioms C06_rename_values_atomic

import IrVerif.Props.C06
open IrVerif.Kernel
#print axioms C06_atomic

import IrVerif.Props.C06
open IrVerif.Kernel
#print axioms C06_atomic
#print axioms C06_rename_values_atomic
#print axioms C06_rauw_many_atomic
#print axioms C06_view_atomic
#print axioms C06_rejects_foreign_value
#print axioms C06_rejects_produced_value
#print axioms C06_rejects_foreign_node
#print axioms C06_rejects_unsafe_removal
#print axioms C06_rejects_initializer_name_collision
#print axioms C06_rejects_missing_name
#print axioms C06_rejects_index_out_of_range
#print axioms C06_rejects_sort_cycle
#print axioms C06_rejects_shrink_with_uses
#print axioms C06_retry

import IrVerif.Props.C06
open IrVerif.Kernel
#print axioms C06_atomic
#print axioms C06_rename_values_atomic
#print axioms C06_rauw_many_atomic
#print axioms C06_view_atomic

import IrVerif.Props.C01
open IrVerif.Kernel
#print axioms C01_init
#print axioms C01_step
#print axioms C01_step_conv
#print axioms C01_step_any
#print axioms C01_history
#print axioms C01_history_from
#print axioms C01_node_sequence_refined
#print axioms C01_node_sequence_history
#print axioms C01_graph_calls_use_seq

import IrVerif.Props.C01
open IrVerif.Kernel
#print axioms C01_init
#print axioms C01_step
#print axioms C01_mutation_faithful
#print axioms C01_rename_faithful
#print axioms C01_step_conv
#print axioms C01_step_any
#print axioms C01_history
#print axioms C01_history_from
#print axioms C01_use_iff
#print axioms C01_uses_nodup
#print axioms C01_producer_iff
#print axioms C01_node_iff
#print axioms C01_nodes_nodup
#print axioms C01_input_iff
#print axioms C01_output_iff
#print axioms C01_initializer_iff
#print axioms C01_initializer_key
#print axioms C01_roots
#print axioms C01_counters
#print axioms C01_node_sequence_refined
#print axioms C01_node_sequence_history
#print axioms C01_graph_calls_use_seq
#print axioms C01_attr_frame
#print axioms C01_sort_step

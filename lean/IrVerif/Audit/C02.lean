import IrVerif.Props.C02
open IrVerif.Serde
#print axioms C02_shape
#print axioms C02_maps
#print axioms C02_type
#print axioms C02_value_info
#print axioms C02_tensor_string
#print axioms C02_tensor_external
#print axioms C02_devcfg
#print axioms C02_attr_list
#print axioms C02_attr_tensor
#print axioms C02_attr_type
#print axioms C02_attr_ref
#print axioms C02_attr
#print axioms C02_node
#print axioms C02_graph
#print axioms C02_function
#print axioms C02_model
#print axioms C02_model_norm
#print axioms C02_norm_idempotent
#print axioms C02_annotations
#print axioms C02_no_loss_names
#print axioms C02_keeps_model
#print axioms C02_keeps_nodes
#print axioms C02_keeps_values
#print axioms C02_node_alone
#print axioms C02_function_alone

import IrVerif.Props.C17
open IrVerif.Scope
#print axioms C17_total
#print axioms C17_consistent
#print axioms C17_idempotent_partial

import IrVerif.Props.C17
open IrVerif.Scope
#print axioms C17_total
#print axioms C17_consistent
#print axioms C17_idempotent_partial
#print axioms C17_idempotent
#print axioms C17_consistent_is_WF
#print axioms C17_deserialize_WF
#print axioms C17_total_model
#print axioms C17_idempotent_model_partial
#print axioms C17_idempotent_model
#print axioms C17_meta_idempotent
#print axioms C17_idempotent_decorated
#print axioms C17_meta_aligned
#print axioms C17_ir9_not_idempotent
#print axioms C17_ext_erasure
#print axioms C17_consistent_ext
#print axioms C17_total_ext
#print axioms C17_ext_sharding_named
#print axioms C17_ext_erasure_model
#print axioms C17_ext_sharding_named_model
#print axioms C17_ext_payload_fixpoint
#print axioms C17_ir9_entries_inert
#print axioms IrVerif.Scope.C17_idempotent_ext
#print axioms IrVerif.Scope.C17_idempotent_ir9
#print axioms IrVerif.Scope.C17_idempotent_ext_model
#print axioms IrVerif.Scope.C17_ext_sharding_resolved
#print axioms IrVerif.Scope.C17_ext_sharding_resolved_model

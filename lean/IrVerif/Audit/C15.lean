import IrVerif.Props.C15
open IrVerif.Names
#print axioms C15_fresh
#print axioms C15_monotone
#print axioms C15_loop_terminates
#print axioms C15_carried
#print axioms C15_graph_fresh
#print axioms C15_explicit_kept
#print axioms C15_namefix_total
#print axioms C15_namefix_post
#print axioms C15_namefix_keeps_unique
#print axioms C15_namefix_idempotent
#print axioms C15_namefix_call_total
#print axioms C15_namefix_call_post
#print axioms C15_namefix_call_keeps_unique
#print axioms C15_namefix_call_idempotent
#print axioms C15_scoped_of_well_owned
#print axioms C15_rename_values_atomic
#print axioms C15_rename_values_succeeds
#print axioms C15_first_holder_keeps
#print axioms C15_namefix_call_first_holder_keeps
#print axioms C15_gen_step_fresh
#print axioms C15_gen_ikey_preserved
#print axioms C15_gen_tensor_follows
#print axioms C15_gen_refines_default
#print axioms C15_gen_nonempty_necessary
#print axioms C15_gen_total_needs_scoping
#print axioms C15_scoping_necessary

import IrVerif.Props.C15
open IrVerif.Names
#print axioms C15_fresh
#print axioms C15_monotone
#print axioms C15_loop_terminates
#print axioms C15_carried
#print axioms C15_graph_fresh
#print axioms C15_explicit_kept
#print axioms C15_namefix_total
#print axioms C15_namefix_post
#print axioms C15_namefix_keeps_unique
#print axioms C15_namefix_idempotent
#print axioms C15_namefix_call_total
#print axioms C15_namefix_call_post
#print axioms C15_namefix_call_keeps_unique
#print axioms C15_namefix_call_idempotent
#print axioms C15_scoped_of_well_owned
#print axioms C15_rename_values_atomic
#print axioms C15_rename_values_succeeds

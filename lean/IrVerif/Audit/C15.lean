import IrVerif.Props.C15
open IrVerif.Names
#print axioms C15_fresh
#print axioms C15_monotone
#print axioms C15_loop_terminates
#print axioms C15_explicit_kept

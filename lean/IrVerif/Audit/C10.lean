import IrVerif.Props.C10
open IrVerif.Path
#print axioms C10_lexical
#print axioms C10_load_base_nonempty

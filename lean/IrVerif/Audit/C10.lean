import IrVerif.Props.C10
open IrVerif.Path
#print axioms C10_lexical
#print axioms C10_real
#print axioms C10_read_safe
#print axioms C10_open_safe
#print axioms C10_all_entry_points
#print axioms C10_single_name
#print axioms C10_base_resolves
#print axioms C10_load_base_nonempty
#print axioms C10_load_base_is_model_dir
#print axioms C10_load_read_safe
#print axioms C10_load_all_positions
#print axioms C10_call_events
#print axioms C10_call_open_safe
#print axioms C10_call_result
#print axioms C10_session_safe
#print axioms C10_nul_rejected
#print axioms C10_eloop_no_open
#print axioms C10_fuel_discharged
#print axioms C10_zero_size
#print axioms C10_world_safe
#print axioms C10_eloop_counts_all_links
#print axioms C10_world_chdir_opens
#print axioms C10_bytes_location
#print axioms C10_pathmax_verified_partial
#print axioms C10_pathmax_safe

import IrVerif.Props.C08
open IrVerif.AtomicSave
#print axioms C08_crash
#print axioms C08_exception
#print axioms C08_exception_multi
#print axioms C08_crash_writer
#print axioms C08_new_is_image
#print axioms C08_crash_serial
#print axioms C08_exception_serial
#print axioms C08_post_samefile
#print axioms C08_invalidate_only_if
#print axioms C08_invalidate_iff
#print axioms C08_destination_resolved
#print axioms C08_sharded_no_touch
#print axioms C08_unload_crash
#print axioms C08_unload_fs_frame
#print axioms C08_unload_exception
#print axioms C08_unload_exception_multi
#print axioms C08_destination_entry
#print axioms C08_symlink_kept
#print axioms C08_crash_links
#print axioms C08_exception_links
#print axioms C08_invalidate_iff_links
#print axioms C08_parallel_language
#print axioms C08_crash_schedule
#print axioms C08_exception_schedule
#print axioms C08_sharded_crash

import IrVerif.Props.C12
open IrVerif.Sort
#print axioms C12_fuel_suffices
#print axioms C12_kahn_refines
#print axioms C12_kahn_perm
#print axioms C12_kahn_respects
#print axioms C12_kahn_cycle_iff
#print axioms C12_kahn_stable
#print axioms C12_relink
#print axioms C12_relink_refines
#print axioms C12_perm
#print axioms C12_respects
#print axioms C12_cycle_iff
#print axioms C12_cycle_lifted
#print axioms C12_cycle_iff_lifted
#print axioms C12_cycle_no_change
#print axioms C12_order_independent
#print axioms C12_pass_atomic
#print axioms C12_pass_result
#print axioms C12_fixpoint_graph
#print axioms C12_fixpoint
#print axioms C12_deterministic

import IrVerif.Props.C09
open IrVerif.Writer
#print axioms C09_budget
#print axioms C09_callback_mutex
#print axioms C09_tensor_mutex

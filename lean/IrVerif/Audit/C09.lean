import IrVerif.Props.C09
open IrVerif.Writer
#print axioms C09_budget
#print axioms C09_callback_mutex
#print axioms C09_callback_once
#print axioms C09_tensor_mutex
#print axioms C09_deadlock_free
#print axioms C09_terminates
#print axioms C09_schedule_bounded
#print axioms C09_maximal_terminal
#print axioms C09_bytes_serial
#print axioms C09_error_quiescent
#print axioms wfb_sound
#print axioms layoutb_sound

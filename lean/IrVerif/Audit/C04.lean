import IrVerif.Props.C04
#print axioms IrVerif.Pack.C04_unpack_pack4
#print axioms IrVerif.Pack.C04_unpack_pack2
#print axioms IrVerif.Pack.C04_pack4_len
#print axioms IrVerif.Pack.C04_pack2_len
#print axioms IrVerif.Pack.C04_pack_unpack4
#print axioms IrVerif.Pack.C04_pack_unpack2
#print axioms IrVerif.Pack.C04_le_roundtrip
#print axioms IrVerif.Pack.C04_nbytes
#print axioms IrVerif.Pack.C04_pack_bitstream
#print axioms IrVerif.TensorRepr.C04_tables
#print axioms IrVerif.TensorRepr.C04_field_agree
#print axioms IrVerif.TensorRepr.C04_all_agree
#print axioms IrVerif.TensorRepr.C04_bytes_len
#print axioms IrVerif.TensorRepr.C04_tofile_at
#print axioms IrVerif.TensorRepr.C04_tofile_paths
#print axioms IrVerif.TensorRepr.C04_tofile_repr
#print axioms IrVerif.TensorRepr.C04_serialize_roundtrip

import IrVerif.Props.C04
open IrVerif.Pack
#print axioms C04_unpack_pack4
#print axioms C04_unpack_pack2
#print axioms C04_pack4_len
#print axioms C04_pack2_len
#print axioms C04_le_roundtrip
#print axioms C04_nbytes

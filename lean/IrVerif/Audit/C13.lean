import IrVerif.Props.C13
open IrVerif.Clone
#print axioms C13_fresh
#print axioms C13_fresh_function
#print axioms C13_fresh_model
#print axioms C13_closed
#print axioms C13_closed_model
#print axioms C13_closed_outer
#print axioms C13_raises_iff_inputs
#print axioms C13_clone_pure
#print axioms C13_failed_clone_no_residue
#print axioms C13_clone_pure_model
#print axioms C13_frame
#print axioms C13_frame_weak
#print axioms C13_frame_clone_edited
#print axioms C13_frame_clone_edited_outer
#print axioms C13_frame_function
#print axioms C13_functionalize
#print axioms C13_frame_orig_edited
#print axioms C13_frame_orig_edited_model
#print axioms C13_faithful
#print axioms C13_faithful_function
#print axioms C13_faithful_model
#print axioms C13_faithful_observe

import IrVerif.Props.C03
open IrVerif.Scope
#print axioms C03_twice
#print axioms C03_pure
#print axioms C03_roundtrip
#print axioms C03_roundtrip_reloadable
#print axioms C03_roundtrip_model
#print axioms C03_meta_roundtrip
#print axioms C03_roundtrip_decorated
#print axioms C03_pure_decorated
#print axioms C03_pure_ext
#print axioms C03_pure_sites
#print axioms C03_pure_frame
#print axioms IrVerif.Scope.C03_roundtrip_ext_graph
#print axioms IrVerif.Scope.C03_roundtrip_ext_devices
#print axioms IrVerif.Scope.C03_ext_certificate_decidable
#print axioms IrVerif.Scope.C03_roundtrip_ext_model
#print axioms IrVerif.Scope.C03_roundtrip_ext
#print axioms IrVerif.Scope.C03_bridge_deserialize_partial
#print axioms IrVerif.Scope.C03_bridge_serialize_partial
#print axioms IrVerif.Scope.C03_bridge_roundtrip_partial
#print axioms IrVerif.Scope.C03_bridge_gok
#print axioms IrVerif.Scope.C03_bridge_serde_partial
#print axioms IrVerif.Scope.C03_bridge_deserialize
#print axioms IrVerif.Scope.C03_bridge_serialize
#print axioms IrVerif.Scope.C03_bridge_roundtrip
#print axioms IrVerif.Scope.C03_bridge_gok_full
#print axioms IrVerif.Scope.C03_bridge_serde

import IrVerif.Props.C16
open IrVerif.SymExpr
#print axioms IrVerif.SymExpr.C16_parser_sound_complete
#print axioms IrVerif.SymExpr.C16_print_parse
#print axioms IrVerif.SymExpr.C16_print_parse_text
#print axioms IrVerif.SymExpr.C16_fast_path
#print axioms IrVerif.SymExpr.C16_tokenize_spec
#print axioms IrVerif.SymExpr.C16_tokenize_render
#print axioms IrVerif.SymExpr.C16_partial
#print axioms IrVerif.SymExpr.C16_eval_free
#print axioms IrVerif.SymExpr.C16_int_ops
#print axioms IrVerif.SymExpr.C16_int_eval
#print axioms IrVerif.SymExpr.C16_overload_sem
#print axioms IrVerif.SymExpr.C16_overload_dispatch
#print axioms IrVerif.SymExpr.C16_shape_evaluate
#print axioms IrVerif.SymExpr.C16_simplify_guard
#print axioms IrVerif.SymExpr.C16_eq_hash
#print axioms IrVerif.SymExpr.C16_parser_total
#print axioms IrVerif.SymExpr.C16_tokenize_classes
#print axioms IrVerif.SymExpr.C16_print_parse_sympy_partial
#print axioms IrVerif.SymExpr.C16_print_parse_sympy
#print axioms IrVerif.SymExpr.C16_overload_dispatch_bool
#print axioms IrVerif.SymExpr.C16_print_parse_sympy_symexp
#print axioms IrVerif.SymExpr.C16_print_parse_sympy_refines

import IrVerif.Props.C19
open IrVerif.Device
#print axioms C19_step
#print axioms C19_history
#print axioms C19_checker_silent
#print axioms C19_checker_only_names
#print axioms C19_drop
#print axioms C19_reject_atomic
#print axioms C19_checks_precede_writes
#print axioms C19_serializable
#print axioms C19_roundtrip_faithful
#print axioms C19_name_frame
#print axioms C19_names_current
#print axioms C19_roundtrip_legacy
#print axioms C19_inline_remap
#print axioms C19_inline_pass
#print axioms C19_inline_pass_axes
#print axioms C19_step_any
#print axioms C19_history_any
#print axioms C19_step_weak
#print axioms C19_weak_checker
#print axioms C19_history_weak

import IrVerif.Model.Pack
import IrVerif.Props.C04

import IrVerif.Drive.Util
import IrVerif.Drive.Pack
/-! Line protocol: one JSON request per line on stdin (`{"m": "<model>.<fn>", ...}`), one JSON
answer per line on stdout (`{"err": ...}` for malformed requests).  Imports models only — never a
proof file — so that nothing it links touches Mathlib. -/
open Lean IrVerif.Drive

def handlers : List Handler := [
  IrVerif.Drive.Pack.handle
]

def dispatch (j : Json) : Except String Json := do
  let m ← j.getObjValAs? String "m"
  for h in handlers do
    if let some r := h m j then return ← r
  throw s!"unknown model command {m}"

partial def loop (h out : IO.FS.Stream) : IO Unit := do
  let line ← h.getLine
  if line.isEmpty then return ()
  let res := match Json.parse line with
    | .error e => Json.mkObj [("err", Json.str s!"parse: {e}")]
    | .ok j => match dispatch j with
      | .ok r => r
      | .error e => Json.mkObj [("err", Json.str e)]
  out.putStrLn res.compress
  loop h out

def main : IO Unit := do
  loop (← IO.getStdin) (← IO.getStdout)

import IrVerif.Drive.Util
import IrVerif.Drive.Clone
import IrVerif.Drive.Clone4
import IrVerif.Drive.CloneMeta
import IrVerif.Drive.Kernel
import IrVerif.Drive.Names
import IrVerif.Drive.Pack
import IrVerif.Drive.TensorLife
import IrVerif.Drive.Passes
import IrVerif.Drive.PassInfra
import IrVerif.Drive.Writer
import IrVerif.Drive.WriterN
import IrVerif.Drive.Sort
import IrVerif.Drive.Device
import IrVerif.Drive.LinkedSet
import IrVerif.Drive.Extract
import IrVerif.Drive.AtomicSave
import IrVerif.Drive.Path
import IrVerif.Drive.Layout
import IrVerif.Drive.Journal
import IrVerif.Drive.Serde
import IrVerif.Drive.SerdeScalar
import IrVerif.Drive.Scope
import IrVerif.Drive.ScopeMeta
import IrVerif.Drive.ScopeExt9
import IrVerif.Drive.ScopeAttr
import IrVerif.Drive.ScopeSerdeBridge
import IrVerif.Drive.SymExpr
import IrVerif.Drive.SymExprSympy
import IrVerif.Drive.Inline
/-! Line protocol: one JSON request per line on stdin (`{"m": "<model>.<fn>", ...}`), one JSON
answer per line on stdout (`{"err": ...}` for malformed requests).  Imports models only — never a
proof file — so that nothing it links touches Mathlib. -/
open Lean IrVerif.Drive

def handlers : List Handler := [
  IrVerif.Drive.SymExpr.handle,
  IrVerif.Drive.SymExprSympy.handle,
  IrVerif.Drive.Scope.handle,
  IrVerif.Drive.ScopeMeta.handle,
  IrVerif.Drive.ScopeExt9.handle,
  IrVerif.Drive.ScopeAttr.handle,
  IrVerif.Drive.ScopeSerdeBridge.handle,
  IrVerif.Drive.Serde.handle,
  IrVerif.Drive.SerdeScalar.handle,
  IrVerif.Drive.Clone4.handle,
  IrVerif.Drive.Clone.handle,
  IrVerif.Drive.CloneMeta.handle,
  IrVerif.Drive.Kernel.handle,
  IrVerif.Drive.Names.handle,
  IrVerif.Drive.Pack.handle,
  IrVerif.Drive.TensorLife.handle,
  IrVerif.Drive.Passes.handle,
  IrVerif.Drive.PassInfra.handle,
  IrVerif.Drive.Writer.handle,
  IrVerif.Drive.WriterN.handle,
  IrVerif.Drive.Sort.handle,
  IrVerif.Drive.Device.handle,
  IrVerif.Drive.LinkedSet.handle,
  IrVerif.Drive.Extract.handle,
  IrVerif.Drive.AtomicSave.handle,
  IrVerif.Drive.Path.handle,
  IrVerif.Drive.Layout.handle,
  IrVerif.Drive.Journal.handle,
  IrVerif.Drive.Inline.handle
]

def dispatch (j : Json) : Except String Json := do
  let m ← j.getObjValAs? String "m"
  for h in handlers do
    if let some r := h m j then return ← r
  throw s!"unknown model command {m}"

partial def loop (h out : IO.FS.Stream) : IO Unit := do
  let line ← h.getLine
  if line.isEmpty then return ()
  let res := match Json.parse line with
    | .error e => Json.mkObj [("err", Json.str s!"parse: {e}")]
    | .ok j => match dispatch j with
      | .ok r => r
      | .error e => Json.mkObj [("err", Json.str e)]
  out.putStrLn res.compress
  loop h out

def main : IO Unit := do
  loop (← IO.getStdin) (← IO.getStdout)
